"""C13 - the server never loses an event and its worker never dies (the
code-shape clauses; interleavings are out of reach of this family)."""
import ast

from ..program import AnalysisError, walk_local, dotted
from ..analysis import Spec, src
from ..rules import (cond_tree, canon, substitute_locals, guard_paths, literal_text, GWF, EXC, mpt, need_func, stores_to, is_const,
                     parent_map, raise_class)
from . import common
from .c12 import _first_exit

BE = 'bert_e.bert_e.BertE'
EXITS = {'sys.exit', 'os._exit', 'exit', 'quit', 'os.abort', 'os.kill',
         '_thread.interrupt_main', 'thread.interrupt_main', 'os.killpg'}
ALLOWED_EXIT_CALLERS = {
    'bert_e.lib.simplecmd._do_cmd': 'os.killpg on the child process group '
                                    'of a timed-out git command',
}


def run(prog, an, rep):
    rep.explain(
        'C13: ARG (duplicate suppression consults only task_queue.queue), '
        'SIB (__eq__ of PullRequestJob / CommitJob by class, repository and '
        'id/sha only; no other job class is de-duplicated), try/finally '
        'shape of process_task (catch-all handler without raise; the four '
        'bookkeeping calls in finally; status set from the exception), WMC '
        '(no process exit / BaseException raise outside CLI entry points), '
        'MPT (worker loop has no exit; every 2xx answer that built a job '
        'passed put_job).')
    rep.assume('thread interleavings of put_job with the worker (the '
               'check-then-put on task_queue.queue is not under '
               'task_queue.mutex) are NOT decided: that needs a model '
               'checker or a controlled scheduler')
    rep.run_rules(prog, an, [dedupe_pending_only, job_equality,
                             worker_shape, no_process_exit, worker_loop,
                             accepted_means_enqueued, ignored_events,
                             reset_callback, lockset_note])


def reset_callback(prog, an, rep):
    """BertE.process resets the work directory before every job; the
    removal reports what it cannot delete to a callback.  A callback that
    cannot take the three arguments shutil.rmtree passes turns the first
    leftover file into a TypeError at the top of every later job: events
    are accepted and none is evaluated."""
    R = 'C13.ARG.reset-callback'
    n = 0
    for f in prog.all_funcs():
        if not f.module.name.startswith('bert_e.lib.git'):
            continue
        for call in prog.calls_in(f):
            if (dotted(call.func) or '').rpartition('.')[2] != 'rmtree':
                continue
            for k in call.keywords:
                if k.arg not in ('onerror', 'onexc'):
                    continue
                n += 1
                rep.evaluated()
                cb = k.value
                node, bound = None, False
                if isinstance(cb, ast.Lambda):
                    node = cb
                elif isinstance(cb, ast.Name):
                    for x in ast.walk(f.node):
                        if isinstance(x, ast.FunctionDef) and \
                                x.name == cb.id and x is not f.node:
                            node = x
                    if node is None:
                        g = prog.funcs.get(f.module.name + '.' + cb.id)
                        node = g.node if g is not None else None
                elif isinstance(cb, ast.Attribute) and \
                        isinstance(cb.value, ast.Name) and \
                        cb.value.id in ('self', 'cls') and f.cls is not None:
                    g = prog.lookup_method(f.cls, cb.attr)
                    if g is not None:
                        node = g.node
                        decos = {src(d) for d in node.decorator_list}
                        bound = 'staticmethod' not in decos
                if node is None:
                    rep.violation(R, f.qname + ': removal callback',
                                  f.where(call), 'the callback %s of rmtree '
                                  'cannot be resolved' % src(cb))
                    continue
                a = node.args
                pos = len(a.posonlyargs) + len(a.args) - (1 if bound else 0)
                required = pos - len(a.defaults)
                ok = pos >= 0 and required <= 3 and \
                    (pos >= 3 or a.vararg is not None) and not any(
                        d is None for d in a.kw_defaults)
                rep.check(ok, R, f.qname + ': the removal callback takes '
                          '(function, path, excinfo)', f.where(call),
                          'rmtree calls %s with three arguments; it takes '
                          '%d%s: the first file that cannot be removed '
                          'raises TypeError in every later job' % (
                              src(cb), max(pos, 0),
                              ' (after the instance it is bound to)'
                              if bound else ''))
    rep.floor('C13 work-directory removal callbacks', n, 1)


def dedupe_pending_only(prog, an, rep):
    R = 'C13.ARG.dedupe'
    f = need_func(an, BE + '.put_job')
    c = an.cfg(f)
    puts = [n for n in c.nodes.values() if n.kind == 'stmt' and any(
        isinstance(x, ast.Call) and src(x.func) == 'self.task_queue.put'
        for x in ast.walk(n.ast))]
    rep.floor('C13 task_queue.put sites in put_job', len(puts), 1)
    import copy as _copy
    tests = []
    for n in c.nodes.values():
        if n.kind == 'test':
            n2 = _copy.copy(n)
            # a flag that caches the membership test is that test
            n2.matched = substitute_locals(f, n.ast)
            tests.append(n2)
    rep.evaluated()
    ok = len(tests) == 1 and isinstance(tests[0].matched, ast.Compare) and \
        len(tests[0].matched.ops) == 1 and \
        isinstance(tests[0].matched.ops[0], (ast.NotIn, ast.In)) and \
        src(tests[0].matched.left) == f.params[1] and \
        src(tests[0].matched.comparators[0]) == 'self.task_queue.queue'
    rep.check(ok, R, f.qname + ': a job is dropped only if an equal job is '
              'in the pending queue', f.where(), 'put_job decides on %s: a '
              'job equal to the running or a finished one would be dropped '
              '(lost event)' % [src(t.ast) for t in tests],
              detail=str([src(t.ast) for t in tests]))
    if ok:
        t = tests[0]
        fresh = c.branch(t, isinstance(t.matched.ops[0], ast.NotIn))
        for p_ in puts:
            o, path = c.must_pass(fresh, p_.id)
            rep.check(o, R, f.qname + ': the job is enqueued when no equal '
                      'job is pending', f.where(p_), 'enqueue is not on the '
                      '"not pending" edge', path=c.describe_path(path))
        o, path = c.must_pass([p_.id for p_ in puts] +
                              c.branch(t, isinstance(t.matched.ops[0], ast.In)),
                              c.exit, use_exc=False)
        rep.check(o, R, f.qname + ': every return has enqueued or found a '
                  'pending duplicate', f.where(), 'put_job can return '
                  'without enqueueing a new job',
                  path=c.describe_path(path))
    for p_ in puts:
        call = [x for x in ast.walk(p_.ast) if isinstance(x, ast.Call) and
                src(x.func) == 'self.task_queue.put'][0]
        rep.check([src(a) for a in call.args] == [f.params[1]] and
                  not call.keywords, R, f.qname + ': enqueues the job '
                  'itself, blocking put', f.where(call),
                  'task_queue.put(%s)' % ', '.join(
                      [src(a) for a in call.args] +
                      ['%s=%s' % (k.arg, src(k.value))
                       for k in call.keywords]))
    rep.check(not any(isinstance(n, ast.Raise)
                      for n in walk_local(f.node, include_root=False)), R,
              f.qname + ': never raises on a duplicate', f.where(),
              'put_job raises')
    init = need_func(an, BE + '.__init__')
    tq = [src(v) for _, v in stores_to(init, 'x')]
    ok = any(isinstance(n, ast.Assign) and
             src(n.targets[0]) == 'self.task_queue' and
             src(n.value) == 'Queue()'
             for n in walk_local(init.node, include_root=False))
    rep.check(ok, R, 'BertE.task_queue is an unbounded queue.Queue',
              init.where(), 'task_queue is no longer Queue() (a bounded '
              'queue makes put block or drop)')


def job_equality(prog, an, rep):
    R = 'C13.SIB.job-equality'
    want = {'PullRequestJob': {'project_repo.full_name', 'pull_request.id'},
            'CommitJob': {'project_repo.full_name', 'commit'}}
    base = prog.cls('bert_e.job.Job')
    n = 0
    for k in prog.subclasses(base.qname):
        eq = k.methods.get('__eq__')
        h = k.methods.get('__hash__')
        if k.name not in want:
            rep.evaluated()
            rep.check(eq is None, R, k.name + ' defines no __eq__ (never '
                      'de-duplicated)', k.where(), '%s got an __eq__: jobs '
                      'of this kind can now be dropped as duplicates' %
                      k.name)
            continue
        n += 1
        rep.evaluated()
        if eq is None:
            rep.violation(R, k.name + '.__eq__', k.where(), '%s lost its '
                          '__eq__: duplicates pile up, or identity is used' %
                          k.name)
            continue
        # the answer as one boolean expression (guard clauses and a final
        # return read as the conjunction they are), then its atoms
        import copy
        from ..inline import _decision_expression, _as_expression, \
            _body_wo_doc
        body = copy.deepcopy(_body_wo_doc(eq.node))
        e = _decision_expression(body) or _as_expression(body)
        t = cond_tree(e, eq) if e is not None else None
        while t is not None and t[0] == 'atom' and \
                t[1].startswith('bool(') and t[1].endswith(')'):
            t = cond_tree(ast.parse(t[1][5:-1], mode='eval').body, eq)
        def flat(x):
            while x[0] == 'not' and x[1][0] == 'not':
                x = x[1][1]
            if x[0] in ('and', 'or'):
                kids = []
                for y in x[1]:
                    y = flat(y)
                    kids += y[1] if y[0] == x[0] else [y]
                return (x[0], kids)
            return x
        t = flat(t) if t is not None else None
        atoms = None
        if t is not None and t[0] == 'and' and \
                all(x[0] == 'atom' for x in t[1]):
            atoms = [x[1] for x in t[1]]
        elif t is not None and t[0] == 'atom':
            atoms = [t[1]]
        ok = atoms is not None
        chains = set()
        inst_ok = False
        if ok:
            other = eq.params[1]
            for a_ in atoms:
                if a_ == 'isinstance(%s, %s)' % (other, k.name):
                    inst_ok = True
                    continue
                sides = a_.split(' == ')
                mine = [x[5:] for x in sides if x.startswith('self.')]
                theirs = [x[len(other) + 1:] for x in sides
                          if x.startswith(other + '.')]
                if len(sides) == 2 and len(mine) == 1 and mine == theirs:
                    chains.add(mine[0])
                else:
                    chains.add('?' + a_)
        rep.check(ok and inst_ok and chains == want[k.name], R,
                  '%s.__eq__: same class, same repository, same %s' % (
                      k.name, 'pull request id' if k.name == 'PullRequestJob'
                      else 'commit'), eq.where(),
                  '%s.__eq__ compares %s%s' % (
                      k.name, sorted(chains),
                      '' if inst_ok else ' without the isinstance test'),
                  detail=str(sorted(chains)))
    rep.floor('C13 de-duplicated job classes', n, 2)


def worker_shape(prog, an, rep):
    R = 'C13.TRY.worker'
    f = need_func(an, BE + '.process_task')
    tries = [n for n in walk_local(f.node, include_root=False)
             if isinstance(n, ast.Try) and any(
                 isinstance(x, ast.Call) and src(x.func) == 'self.process'
                 for s in n.body for x in ast.walk(s))]
    if len(tries) != 1:
        rep.violation(R, f.qname + ': self.process(job) inside try',
                      f.where(), 'the job is processed outside a try '
                      'statement: an exception kills the worker thread')
        return
    t = tries[0]
    # job = self.task_queue.get(), recorded as status['current job'] (one
    # chained assignment or two statements)
    job = None
    recorded = False
    for n in walk_local(f.node, include_root=False):
        if isinstance(n, ast.Assign) and \
                src(n.value) == 'self.task_queue.get()':
            tg = [src(x) for x in n.targets]
            names = [x for x in tg if x != "self.status['current job']"]
            job = names[0] if names else job
            recorded = recorded or "self.status['current job']" in tg
    for n in walk_local(f.node, include_root=False):
        if isinstance(n, ast.Assign) and any(
                src(x) == "self.status['current job']" for x in n.targets) \
                and canon(f, n.value) == 'self.task_queue.get()':
            recorded = True
    if not recorded:
        job = None
    rep.evaluated()
    rep.check(job is not None, R, f.qname + ': job = status[current job] = '
              'task_queue.get()', f.where(), 'the dequeued job is no longer '
              'recorded as the current job')
    job = job or 'job'
    catch_all = [h for h in t.handlers if h.type is None or
                 (dotted(h.type) or '').rpartition('.')[2] in
                 ('Exception', 'BaseException')]
    rep.evaluated()
    # (more specific handlers may come first: each is held to the same
    # rules below; what matters is that the last one takes everything)
    rep.check(bool(catch_all) and t.handlers[-1] is catch_all[-1], R,
              f.qname + ': the last handler catches '
              'Exception', f.where(t), 'handlers: %s -- an exception class '
              'outside them escapes and kills the worker' %
              [src(h.type) if h.type else 'bare' for h in t.handlers])
    for h in t.handlers:
        raises = [x for s in h.body for x in ast.walk(s)
                  if isinstance(x, ast.Raise)]
        rep.evaluated()
        rep.check(not raises, R, f.qname + ': the handler never re-raises',
                  f.where(h), 'the handler raises at line %s: the worker '
                  'thread dies with the job' % [x.lineno for x in raises])
        # job.status set from the exception type, first thing, on every path
        c = an.cfg(f)
        hn = c.stmt_node[id(h)]
        st = [n for n in c.nodes.values() if n.kind == 'done' and
              isinstance(n.ast, ast.Assign) and
              src(n.ast.targets[0]) == job + '.status' and
              src(n.ast.value) == 'type(%s).__name__' % (h.name or 'err')]
        fin = [n for n in c.nodes.values() if n.kind == 'finally']
        ok = bool(st)
        path = None
        for fi in fin:
            p_ = c.path(hn, fi.id, removed={x.id for x in st},
                        use_exc=False)
            if p_ is not None:
                ok, path = False, p_
        rep.evaluated()
        rep.check(ok, R, f.qname + ': job.status = type(err).__name__ on '
                  'every handled path', f.where(h), 'a failed job can be '
                  'recorded without its status', path=c.describe_path(path))
        subs = [x for s in h.body for x in ast.walk(s)
                if isinstance(x, ast.Subscript)]
        rep.check(not subs, R, f.qname + ': the handler does no indexing '
                  '(IndexError / KeyError would escape it)', f.where(h),
                  'the handler evaluates %s, which can raise inside the '
                  'except block and kill the worker thread' %
                  [src(x) for x in subs][:2])
        allowed_calls = ('LOG.exception', 'LOG.info', 'LOG.error',
                         'LOG.warning', 'LOG.debug', 'str', 'type',
                         'isinstance')
        for s in h.body:
            for x in ast.walk(s):
                if isinstance(x, ast.Call) and src(x.func) not in \
                        allowed_calls:
                    rep.violation(R, f.qname + ': handler calls %s' %
                                  src(x.func), f.where(x), 'the handler '
                                  'calls %s, which may raise and kill the '
                                  'worker' % src(x.func))
    need = {job + '.complete()': False, 'self.task_queue.task_done()': False,
            'self.tasks_done.appendleft(%s)' % job: False,
            "self.status.pop('current job')": False}
    for s in t.finalbody:
        for x in ast.walk(s):
            if isinstance(x, ast.Call) and src(x) in need:
                need[src(x)] = True
    for k, v in need.items():
        rep.evaluated()
        rep.check(v, R, f.qname + ': finally runs ' + k, f.where(t),
                  '%s is not in the finally block: after a failing job the '
                  'server state is stale (marker / unfinished queue / '
                  'unrecorded job)' % k)
    rep.check(not any(isinstance(x, (ast.Raise, ast.Return))
                      for s in t.finalbody for x in ast.walk(s)), R,
              f.qname + ': finally neither raises nor returns', f.where(t),
              'raise / return inside finally')
    fb_calls = {src(x.func) for s in t.finalbody for x in ast.walk(s)
                if isinstance(x, ast.Call)}
    extra = fb_calls - {job + '.complete', 'self.task_queue.task_done',
                        'self.tasks_done.appendleft', 'self.status.pop',
                        'LOG.info', 'datetime.now'}
    rep.check(not extra, R, f.qname + ': only bookkeeping in finally',
              f.where(t), 'finally also calls %s' % sorted(extra))
    # Job.complete cannot fail
    jc = need_func(an, 'bert_e.job.Job.complete')
    body = [s for s in jc.node.body if not (isinstance(s, ast.Expr) and
                                            isinstance(s.value,
                                                       ast.Constant))]
    rep.check(len(body) == 1 and isinstance(body[0], ast.Assign) and
              src(body[0].value) == 'datetime.now()', R, jc.qname +
              ': only stamps the end time', jc.where(), 'Job.complete does '
              'more than stamping end_time')


def no_process_exit(prog, an, rep):
    R = 'C13.WMC.process-exit'
    n = 0
    for f in prog.all_funcs():
        if f.module.name.startswith('bert_e.bin') or \
                f.module.name in ('bert_e.git_host.mock',
                                  'bert_e.server.server'):
            continue
        if f.qname in ('bert_e.bert_e.main',):
            continue
        for call in prog.calls_in(f):
            cal = prog.callee(f, call)
            n += 1
            if cal[0] == 'ext' and cal[1] in EXITS:
                ok = f.qname in ALLOWED_EXIT_CALLERS and cal[1] == 'os.killpg'
                rep.check(ok, R, '%s calls %s' % (f.qname, cal[1]),
                          f.where(call), '%s can terminate or signal the '
                          'server process from inside a job' % cal[1],
                          detail=ALLOWED_EXIT_CALLERS.get(f.qname))
        for x in walk_local(f.node, include_root=False):
            if isinstance(x, ast.Raise) and x.exc is not None:
                k = raise_class(an, f, x) or ''
                if k.rpartition('.')[2] in ('SystemExit', 'KeyboardInterrupt',
                                            'BaseException',
                                            'GeneratorExit'):
                    rep.violation(R, '%s raises %s' % (f.qname, k),
                                  f.where(x), 'a BaseException escapes the '
                                  'worker\'s `except Exception`')
    rep.evaluated(n)
    rep.floor('C13 call sites scanned for process exits', n, 1500)
    # exception classes of the repo all derive from Exception
    for k in prog.classes.values():
        if any(b.rpartition('.')[2] == 'BaseException'
               for b in k.base_qnames):
            rep.violation(R, k.qname + ' derives from BaseException',
                          k.where(), 'an exception class outside Exception '
                          'escapes the worker handler')


def worker_loop(prog, an, rep):
    R = 'C13.MPT.worker-loop'
    f = need_func(an, 'bert_e.server.setup_bert_e')
    w = None
    for g in f.nested.values():
        if any(isinstance(x, ast.Call) and
               src(x.func).endswith('.process_task')
               for x in walk_local(g.node, include_root=False)):
            w = g
    if w is None:
        rep.violation(R, f.qname + ': worker function', f.where(),
                      'no worker function calling process_task')
        return
    loops = [n for n in walk_local(w.node, include_root=False)
             if isinstance(n, ast.While)]
    rep.evaluated()
    ok = len(loops) == 1 and is_const(loops[0].test, True) and \
        not loops[0].orelse and not any(
            isinstance(x, (ast.Break, ast.Return, ast.Raise))
            for x in ast.walk(w.node))
    body_ok = ok and len(loops[0].body) == 1 and \
        isinstance(loops[0].body[0], ast.Expr) and \
        src(loops[0].body[0].value).endswith('.process_task()')
    rep.check(ok and body_ok, R, w.qname + ': while True: process_task(), '
              'no way out', w.where(), 'the worker loop can end (break / '
              'return / raise / condition) or does more than process_task')
    th = [x for x in prog.calls_in(f) if src(x.func) == 'Thread']
    ok = len(th) == 1 and any(k.arg == 'target' and src(k.value) == w.name
                              for k in th[0].keywords)
    started = any(src(x.func).endswith('.start') for x in prog.calls_in(f))
    rep.check(ok and started, R, f.qname + ': the worker thread runs that '
              'loop and is started', f.where(), 'worker thread target / '
              'start changed')


def accepted_means_enqueued(prog, an, rep):
    R = 'C13.MPT.accepted-enqueued'
    views = ['bert_e.server.webhook.parse_bitbucket_webhook',
             'bert_e.server.webhook.parse_github_webhook',
             'bert_e.server.api.base.APIEndpoint.view']
    for q in views:
        f = need_func(an, q)
        c = an.cfg(f)
        puts = []
        for n in c.nodes.values():
            if n.kind == 'stmt' and any(
                    isinstance(x, ast.Call) and
                    isinstance(x.func, ast.Attribute) and
                    x.func.attr == 'put_job' for x in ast.walk(n.ast)):
                puts += c.done_of(n)
        # "no job was built": the value handed to put_job is None / falsy
        jv = {src(x.args[0]) for n in c.nodes.values() if n.kind == 'stmt'
              for x in ast.walk(n.ast)
              if isinstance(x, ast.Call) and
              isinstance(x.func, ast.Attribute) and
              x.func.attr == 'put_job' and x.args}
        no_job = an.branch_nodes(f, lambda e: src(e) in jv, False) + \
            an.branch_nodes(f, lambda e: isinstance(e, ast.Compare) and
                            len(e.ops) == 1 and
                            isinstance(e.ops[0], ast.Is) and
                            src(e.left) in jv and
                            is_const(e.comparators[0], None), True)
        rets = [n for n in c.nodes.values() if n.kind == 'return']
        ok2xx = 0
        for r in rets:
            code = _status_code(r.ast.value)
            if code is None or not (200 <= code < 300):
                continue
            ok2xx += 1
            rep.evaluated()
            ok, path = c.must_pass(puts + no_job, r.id)
            rep.check(ok and bool(puts), R, '%s: %d answer only after '
                      'put_job (or when no job was built)' % (f.qname, code),
                      f.where(r), 'a %d answer is sent although the job was '
                      'not enqueued' % code, path=c.describe_path(path))
        rep.floor('C13 2xx answers in ' + f.qname, ok2xx, 1)
        # the job enqueued is the one built
        for n in c.nodes.values():
            if n.kind == 'stmt':
                for x in ast.walk(n.ast):
                    if isinstance(x, ast.Call) and \
                            isinstance(x.func, ast.Attribute) and \
                            x.func.attr == 'put_job':
                        rep.check(len(x.args) == 1 and
                                  isinstance(x.args[0], ast.Name), R,
                                  f.qname + ': put_job(job)', f.where(x),
                                  'put_job(%s)' % [src(a) for a in x.args])


# The only reasons for which a webhook handler builds no job (the request is
# still answered 200): frozen, read off the handlers; each entry is
# (condition written without locals, value it has when the event is ignored)
WH = 'bert_e.server.webhook'
IGNORED_EVENTS = {
    WH + '.handle_bitbucket_repo_event': [
        ("event in ['commit_status_created', 'commit_status_updated']",
         False),                                     # not a build status
        ("json_data['commit_status']['state'] == 'INPROGRESS'", True),
    ],
    WH + '.handle_bitbucket_pr_event': [],
    WH + '.handle_github_pr_event': [
        ("github.PullRequestEvent(client=bert_e.client, **json_data).action"
         " == 'closed'", True)],
    WH + '.handle_github_issue_comment': [
        ("github.IssueCommentEvent(client=bert_e.client, **json_data)"
         ".pull_request", False)],                   # comment on an issue
    WH + '.handle_github_pr_review_event': [],
    WH + '.handle_github_status_event': [
        ("github.StatusEvent(client=bert_e.client, **json_data).status.state"
         " == 'INPROGRESS'", True)],
    WH + '.handle_github_check_suite_event': [
        ("github.CheckSuiteEvent(client=bert_e.client, **json_data).status"
         ".state == 'INPROGRESS'", True)],
}


def ignored_events(prog, an, rep):
    """An accepted webhook leads to a job unless it is one of the frozen
    'nothing to evaluate' cases (build just started, PR closed, comment on
    an issue, unrelated event key)."""
    R = 'C13.EXH.ignored-events'
    seen = 0
    for f in prog.all_funcs():
        if f.module.name != WH or not f.name.startswith('handle_') or \
                f.parent is not None:
            continue
        seen += 1
        table = IGNORED_EVENTS.get(f.qname)
        if table is None:
            rep.violation(R, f.qname + ': unknown webhook handler',
                          f.where(), 'new webhook handler %s: list the '
                          'events it ignores' % f.qname)
            continue
        want = {literal_text(f, t, v) for t, v in table}
        c = an.cfg(f)
        none_ret = {n.id for n in c.nodes.values() if n.kind == 'return' and
                    (n.ast.value is None or is_const(n.ast.value, None))}
        val_ret = {n.id for n in c.nodes.values() if n.kind == 'return'} - \
            none_ret
        got = set()
        for path in guard_paths(an, f, none_ret | {c.exit}, avoid=val_ret):
            rep.evaluated()
            if not path:
                got.add(('<unconditional>', True))
                continue
            atom, pol, _ = path[-1]
            got.add(literal_text(f, atom, pol))
        extra = sorted(got - want)
        rep.check(not extra, R, f.qname + ': events ignored only for the '
                  'listed reasons', f.where(), 'an accepted event produces '
                  'no job when %s (not one of the %d listed reasons): the '
                  'event is answered 200 and never evaluated' % (
                      extra, len(want)))
    rep.floor('C13 webhook handlers', seen, 7)


def _status_code(e):
    if e is None:
        return None
    if isinstance(e, ast.Call) and src(e.func).endswith('Response') and \
            len(e.args) >= 2 and isinstance(e.args[1], ast.Constant):
        return e.args[1].value
    if isinstance(e, ast.Tuple) and len(e.elts) >= 2 and \
            isinstance(e.elts[1], ast.Constant):
        return e.elts[1].value
    return None


def lockset_note(prog, an, rep):
    sites = []
    for f in prog.all_funcs():
        for x in walk_local(f.node, include_root=False):
            if isinstance(x, ast.Attribute) and x.attr == 'queue' and \
                    src(x.value).endswith('task_queue'):
                has_lock = 'mutex' in src(f.node)
                if not has_lock:
                    sites.append(f.where(x))
    if sites:
        rep.note('N-C13-1 (informational, not armed): task_queue.queue is '
                 'read without task_queue.mutex at %s; the check-then-put '
                 'of put_job is therefore not atomic. The reachable bad '
                 'outcome is a duplicate job or a 5xx, neither forbidden '
                 'by the statement; whether an interleaving loses an '
                 'accepted event is not decidable statically here.' %
                 ', '.join(sorted(set(sites))))
