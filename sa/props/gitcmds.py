"""Census of the git command strings that reach Repository.cmd (C02, C08).

Every call `<repo-ish>.cmd(<command>, *args, **kw)` outside the tests is
collected; the command expression is folded to the finite set of strings it
can denote (string constants, `%` / `+` / str.format splicing, conditional
expressions, single-assignment locals), `%s` holes that receive run-time
arguments become the placeholder token <ARG>, and the result is tokenised
with shlex.  A command that cannot be folded is an analysis error."""
import ast
import shlex

from ..program import AnalysisError, walk_local, dotted
from ..analysis import src
from ..rules import stores_to

HOLE = '\x00ARG\x00'


class Cmd:
    def __init__(self, f, call, text):
        self.f = f
        self.call = call
        self.text = text.replace(HOLE, '<ARG>')
        try:
            self.tokens = shlex.split(self.text.replace('%%', '%'))
        except ValueError:
            self.tokens = self.text.split()

    @property
    def where(self):
        return self.f.where(self.call)

    @property
    def sub(self):
        return self.tokens[1] if len(self.tokens) > 1 and \
            self.tokens[0] == 'git' else None

    def __repr__(self):
        return '%s @%s' % (self.text, self.where)


def possible_strings(f, e, depth=4):
    """Set of strings expression e may denote (HOLE for run-time parts), or
    None if unknown."""
    if isinstance(e, ast.Constant):
        return {e.value} if isinstance(e.value, str) else {str(e.value)}
    if isinstance(e, ast.IfExp):
        a = possible_strings(f, e.body, depth)
        b = possible_strings(f, e.orelse, depth)
        return None if a is None or b is None else a | b
    if isinstance(e, ast.JoinedStr):
        outs = {''}
        for v in e.values:
            if isinstance(v, ast.Constant):
                outs = {o + v.value for o in outs}
            else:
                outs = {o + HOLE for o in outs}
        return outs
    if isinstance(e, ast.BinOp) and isinstance(e.op, ast.Add):
        a = possible_strings(f, e.left, depth)
        b = possible_strings(f, e.right, depth)
        if a is None:
            return None
        if b is None:
            b = {HOLE}
        return {x + y for x in a for y in b}
    if isinstance(e, ast.BinOp) and isinstance(e.op, ast.Mod):
        a = possible_strings(f, e.left, depth)
        if a is None:
            return None
        args = e.right.elts if isinstance(e.right, ast.Tuple) else [e.right]
        choices = []
        for x in args:
            v = possible_strings(f, x, depth)
            choices.append(v if v is not None else {HOLE})
        outs = set()
        for fmt in a:
            outs |= _fill(fmt, choices)
        return outs
    if isinstance(e, ast.Call) and isinstance(e.func, ast.Attribute) and \
            e.func.attr == 'format':
        a = possible_strings(f, e.func.value, depth)
        if a is None:
            return None
        outs = set()
        for fmt in a:
            s = fmt
            import re as _re
            s = _re.sub(r'\{[^}]*\}', HOLE, s)
            outs.add(s)
        return outs
    if isinstance(e, ast.Name) and depth > 0:
        if e.id in f.params and not stores_to(f, e.id):
            return None
        binds = stores_to(f, e.id)
        vals = [v for _, v in binds]
        if not vals or any(v is None for v in vals):
            return None
        out = set()
        augs = []
        for st, v in binds:
            # `prune = '--prune' if prune else ''` : the parameter itself is
            # only tested, never spliced
            pv = possible_strings(f, v, depth - 1)
            if pv is None:
                return None
            if isinstance(st, ast.AugAssign):
                if not isinstance(st.op, ast.Add):
                    return None
                augs.append((st.lineno, pv))    # command += '--flag'
            else:
                out |= pv
        # a command built in steps: each `+=` may or may not have run
        for _, pv in sorted(augs, key=lambda a_: a_[0]):
            out |= {x + y for x in out for y in pv}
        return out or None
    return None


def _fill(fmt, choices):
    """Substitute %s / %d / %r holes of fmt by each combination."""
    outs = ['']
    i = 0
    k = 0
    while i < len(fmt):
        ch = fmt[i]
        if ch == '%' and i + 1 < len(fmt):
            nx = fmt[i + 1]
            if nx == '%':
                outs = [o + '%' for o in outs]
                i += 2
                continue
            if nx in 'sdr':
                opts = choices[k] if k < len(choices) else {HOLE}
                k += 1
                outs = [o + v for o in outs for v in opts]
                i += 2
                continue
        outs = [o + ch for o in outs]
        i += 1
    return set(outs)


def is_repo_cmd(prog, f, call):
    fn = call.func
    if not (isinstance(fn, ast.Attribute) and fn.attr == 'cmd'):
        return False
    # any `<object>.cmd(...)`: what the receiver is called says nothing (a
    # clone kept in another local runs git all the same); the module-level
    # simplecmd.cmd is a plain function and is accounted for by C16
    return not (isinstance(fn.value, ast.Name) and
                fn.value.id in ('simplecmd', 'subprocess', 'os'))


def census(prog, an):
    out = []
    unfolded = []
    for f in prog.all_funcs():
        if f.module.name == 'bert_e.git_host.mock' or \
                f.module.name.startswith('bert_e.bin'):
            continue
        for call in prog.calls_in(f):
            if not is_repo_cmd(prog, f, call):
                continue
            if f.qname == 'bert_e.lib.git.Repository.cmd':
                continue    # the retry recursion forwards `command`
            if not call.args:
                continue
            strs = possible_strings(f, call.args[0])
            if strs is None:
                unfolded.append((f, call))
                continue
            extra = len(call.args) - 1
            # positional *args of Repository.cmd fill the %s holes: with
            # what they can be when that is known, else a run-time value
            fills = []
            for a in call.args[1:]:
                vs = None if isinstance(a, ast.Starred) else \
                    possible_strings(f, a)
                fills.append(vs if vs and len(vs) <= 4 else {HOLE})
            fills += [{HOLE}] * 16
            for s in sorted(strs):
                if not extra:
                    out.append(Cmd(f, call, s))
                    continue
                for s2 in sorted(_fill(s, fills)):
                    out.append(Cmd(f, call, s2))
    return out, unfolded
