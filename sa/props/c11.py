"""C11 - the ticket gate admits a pull request exactly when its Jira issue
fits (gate order, bypass set, one message per failure, filter languages)."""
import ast

from ..program import AnalysisError, walk_local, dotted
from ..analysis import Spec, src, class_const, const_value
from ..deps import Deps
from ..rules import (flow_canon, regex_match, substitute_locals, guard_paths, inside, before, GWF, EXC, mpt, need_func, stores_to, raise_class,
                     chained_assign_value, is_const, explicit_exits,
                     http_status_of)
from . import common
from .c04 import signature, diff_sig
from .c12 import _first_exit

J = GWF + '.jira'
BR = GWF + '.branches'
TEMPLATE = EXC + '.TemplateException'
FAILURES = {
    J + '.check_issue_reference': 'MissingJiraId',
    J + '.get_jira_issue': 'JiraIssueNotFound',
    J + '.check_project': 'IncorrectJiraProject',
    J + '.check_issue_type': 'IssueTypeNotSupported',
    J + '.check_fix_versions': 'IncorrectFixVersion',
}


def run(prog, an, rep):
    rep.explain(
        'C11: MPT (jira_checks dominates every statement that can create '
        'integration branches / merges / pull requests), NEB (jira_checks '
        'has no remote effect), early-exit enumeration (the checks are '
        'skipped only through the four documented bypass edges), ARG (the '
        'issue checked is the one fetched), REG (five distinct template '
        'exceptions; unique codes; template files exist), DEP (fix-version '
        'guards), LNG (version filter regexes), SIB (upper-cased ticket '
        'key and project).')
    rep.assume('equality between the issue versions and the expected '
               'versions of C09 on concrete inputs is not evaluated')
    rep.run_rules(prog, an, [gate, no_effect, bypass_exits, issue_flow,
                             issue_reference, messages, fix_versions,
                             filters, upper_case, issue_lookup])


def gate(prog, an, rep):
    R = 'C11.MPT.ticket-gate'
    f = need_func(an, GWF + '._handle_pull_request')
    c = an.cfg(f)
    g = Spec.func(J + '.jira_checks')
    if an.resolve_spec(g) is None:
        rep.violation(R, 'jira_checks', f.where(), 'jira_checks is gone')
        return
    gates = an.gate_nodes(f, g, depth=2)
    effects = common.LOCAL_CREATE | \
        common.host_methods(prog, 'create_pull_request')
    n_t = 0
    for n in c.stmt_nodes_where(lambda a: True):
        hit = common.stmt_reaches(an, f, n.ast, effects)
        if not hit:
            continue
        n_t += 1
        rep.evaluated()
        ok, path = c.must_pass(gates, n.id)
        if not c.is_reachable(n.id):
            ok = True
        rep.check(ok, R, '%s: jira_checks before %s' % (
            f.qname, src(n.ast)[:50].replace('\n', ' ')), f.where(n),
            'integration branches / merges (%s) are reachable without the '
            'Jira checks' % hit.rpartition('.')[2],
            path=c.describe_path(path))
    rep.floor('C11 creating statements after the ticket gate', n_t, 5)


def no_effect(prog, an, rep):
    f = need_func(an, J + '.jira_checks')
    effects = common.LOCAL_CREATE | common.PUBLISH | \
        common.host_methods(prog, 'create_pull_request') | \
        common.host_methods(prog, 'add_comment') | \
        common.host_methods(prog, 'decline')
    rep.evaluated()
    hit = common.reaches(an, f, effects)
    rep.check(hit is None, 'C11.NEB.gate-effects', f.qname + ': failures '
              'leave the repository untouched', f.where(),
              'jira_checks can reach %s' % hit)


def _has_call(an, f, spec):
    def pred(e):
        return any(isinstance(x, ast.Call) and an.call_matches(f, x, spec)
                   for x in ast.walk(e))
    return pred


def bypass_exits(prog, an, rep):
    R = 'C11.MPT.bypass-exits'
    f = need_func(an, J + '.jira_checks')
    c = an.cfg(f)
    d = Deps(an, f)
    byp = an.branch_nodes(f, _has_call(an, f, Spec.func(
        GWF + '.utils.bypass_jira_check')), True)
    common.bypass_helper(prog, an, rep, 'bypass_jira_check', 'C11')
    prefix_tests = [t for t in an.test_nodes(
        f, lambda e: isinstance(e, ast.Compare) and len(e.ops) == 1 and
        isinstance(e.ops[0], (ast.In, ast.NotIn)) and
        'bypass_prefixes' in src(e))]
    prefix = []
    for t in prefix_tests:
        prefix += c.branch(t, isinstance(t.matched.ops[0], ast.In))
        lv = d.leaves(t.ast, with_control=False)
        rep.check(lv == {'git.src_branch.prefix', 'settings.bypass_prefixes'},
                  'C11.DEP.bypass-prefix', f.qname + ': prefix bypass reads '
                  'the source prefix and settings.bypass_prefixes',
                  f.where(t), 'prefix bypass depends on %s' % sorted(lv),
                  detail=str(sorted(lv)))
    conf_tests = [t for t in an.test_nodes(
        f, lambda e: 'jira_keys' in src(e) or 'jira_account_url' in src(e)
        or 'jira_email' in src(e), expand='all')]
    conf = []
    three = {'settings.jira_keys', 'settings.jira_email',
             'settings.jira_account_url'}
    seen_settings = set()
    for t in conf_tests:
        conf += c.branch(t, False)
        lv = d.leaves(t.ast, with_control=False)
        seen_settings |= lv
        # one test over the three (all([...])) or one test per setting
        # (a and b and c): each falsy outcome is "not configured"
        rep.check(lv <= three and (lv == three) ==
                  src(t.matched).startswith('all('), 'C11.DEP.not-configured',
                  f.qname + ': "Jira not configured" = any of the three '
                  'settings empty', f.where(t),
                  '"not configured" test is %s' % src(t.ast),
                  detail=src(t.ast))
    rep.check(seen_settings == three, 'C11.DEP.not-configured', f.qname +
              ': the three Jira settings are all required', f.where(),
              '"not configured" looks at %s' % sorted(seen_settings))
    ref = an.branch_nodes(f, _has_call(an, f, Spec.func(
        J + '.check_issue_reference')), False)
    # nothing is demanded of a pull request whose gate is bypassed or on an
    # instance without Jira: every check that can refuse runs after the
    # bypass tests said "not bypassed" and the settings test said
    # "configured"
    open_ = [('the bypass option', an.branch_nodes(f, _has_call(
        an, f, Spec.func(GWF + '.utils.bypass_jira_check')), False))]
    for t in prefix_tests:
        open_.append(('the prefix bypass', c.branch(
            t, not isinstance(t.matched.ops[0], ast.In))))
    for t in conf_tests:
        open_.append(('"Jira is configured" (%s)' % src(t.ast)[:40],
                      c.branch(t, True)))
    for q in (J + '.check_issue_reference', J + '.get_jira_issue',
              J + '.check_project', J + '.check_issue_type',
              J + '.check_fix_versions'):
        for t in an.target_nodes(f, Spec.func(q), depth=0):
            for label, gates in open_:
                rep.evaluated()
                ok, path = c.must_pass(gates, t.id)
                rep.check(ok and bool(gates), 'C11.MPT.bypass-first',
                          '%s: %s runs only after %s' % (
                              f.qname, q.rpartition('.')[2], label),
                          f.where(t), '%s can refuse a pull request before '
                          '%s was looked at: the gate applies where it must '
                          'not' % (q.rpartition('.')[2], label),
                          path=c.describe_path(path))
    if not ref:
        # the reference check folded into the fetch: get_jira_issue answers
        # None exactly for a ticketless pull request, and jira_checks leaves
        # on None
        g = need_func(an, J + '.get_jira_issue')
        gc = an.cfg(g)
        gref = an.branch_nodes(g, _has_call(an, g, Spec.func(
            J + '.check_issue_reference')), False)
        valued = [n.id for n in gc.nodes.values() if n.kind == 'return' and
                  n.ast.value is not None and
                  not is_const(n.ast.value, None)]
        ok, _ = gc.must_pass(gref + valued, gc.exit, use_exc=False)
        gi_calls = an.direct_calls(f, Spec.func(J + '.get_jira_issue'))
        ivars = {n.targets[0].id for n in walk_local(f.node,
                                                     include_root=False)
                 if isinstance(n, ast.Assign) and n.value in gi_calls and
                 isinstance(n.targets[0], ast.Name)}
        if ok and gref and len(ivars) == 1:
            iv = next(iter(ivars))
            for t in an.test_nodes(
                    f, lambda e: isinstance(e, ast.Compare) and
                    len(e.ops) == 1 and src(e.left) == iv and
                    isinstance(e.ops[0], (ast.Is, ast.IsNot)) and
                    is_const(e.comparators[0], None)):
                ref += c.branch(t, isinstance(t.matched.ops[0], ast.Is))
            for t in an.test_nodes(f, lambda e: src(e) == iv):
                ref += c.branch(t, False)
    rep.check(len(byp) > 0 and len(prefix) > 0 and len(conf) > 0 and
              len(ref) > 0, R, f.qname + ': the four documented bypass '
              'edges exist', f.where(), 'bypass edges found: option=%d '
              'prefix=%d not-configured=%d ticketless=%d' % (
                  len(byp), len(prefix), len(conf), len(ref)))
    bypasses = byp + prefix + conf + ref
    nover = an.branch_nodes(
        f, lambda e: src(e).endswith('settings.disable_version_checks'),
        True)
    for q in (J + '.get_jira_issue', J + '.check_project',
              J + '.check_issue_type', J + '.check_fix_versions'):
        rep.evaluated()
        sp = Spec.func(q)
        if an.resolve_spec(sp) is None:
            rep.violation(R, f.qname + ': ' + q.rpartition('.')[2],
                          f.where(), 'check %s no longer exists' % q)
            continue
        done = an.gate_nodes(f, sp, depth=1)
        extra = nover if q.endswith('check_fix_versions') else []
        ok, path = c.must_pass(bypasses + done + extra, c.exit,
                               use_exc=False)
        rep.check(ok, R, '%s: %s runs unless bypassed' % (
            f.qname, q.rpartition('.')[2]), f.where(),
            'jira_checks can return normally without %s, outside the '
            'documented bypasses%s' % (
                q.rpartition('.')[2],
                ' / disable_version_checks' if extra else ''),
            path=c.describe_path(path))
    # order: the issue is fetched before it is checked
    gi = an.gate_nodes(f, Spec.func(J + '.get_jira_issue'), depth=0)
    for q in (J + '.check_project', J + '.check_issue_type',
              J + '.check_fix_versions'):
        for t in an.target_nodes(f, Spec.func(q), depth=0):
            ok, path = c.must_pass(gi, t.id)
            rep.check(ok, 'C11.MPT.order', '%s: issue fetched before %s' % (
                f.qname, q.rpartition('.')[2]), f.where(t),
                '%s runs before the issue was fetched' %
                q.rpartition('.')[2], path=c.describe_path(path))


def issue_flow(prog, an, rep):
    R = 'C11.ARG.issue'
    f = need_func(an, J + '.jira_checks')
    gi = an.direct_calls(f, Spec.func(J + '.get_jira_issue'))
    if not gi:
        return
    var = None
    for n in walk_local(f.node, include_root=False):
        if isinstance(n, ast.Assign) and n.value in gi and \
                isinstance(n.targets[0], ast.Name):
            var = n.targets[0].id
    for q in (J + '.check_project', J + '.check_issue_type',
              J + '.check_fix_versions'):
        for call in an.direct_calls(f, Spec.func(q)):
            rep.evaluated()
            a = call.args[1] if len(call.args) > 1 else None
            ok = var is not None and isinstance(a, ast.Name) and \
                a.id == var and len(stores_to(f, var)) == 1
            rep.check(ok, R, '%s: %s receives the fetched issue' % (
                f.qname, q.rpartition('.')[2]), f.where(call),
                '%s is given %s, not the issue returned by get_jira_issue' %
                (q.rpartition('.')[2], src(a) if a is not None else '?'))


def issue_reference(prog, an, rep):
    R = 'C11.MPT.ticket-mandatory'
    f = need_func(an, J + '.check_issue_reference')
    c = an.cfg(f)
    loops = [n for n in walk_local(f.node, include_root=False)
             if isinstance(n, ast.For)]
    ok_loop = [lp for lp in loops
               if src(lp.iter).endswith('cascade.dst_branches')]
    rep.check(len(ok_loop) == 1, R, f.qname + ': every target branch is '
              'consulted', f.where(), 'no loop over cascade.dst_branches '
              '(found loops over %s)' % [src(lp.iter) for lp in loops])
    exhausted = []
    for lp in ok_loop:
        head = c.stmt_node[id(lp)]
        exhausted += [s for s in c.succ[head] if c.nodes[s].kind == 'false']
        tests = [t for t in an.test_nodes(
            f, lambda e: isinstance(e, ast.Attribute) and
            e.attr == 'allow_ticketless_pr')
            if inside(lp, t)]
        rep.check(len(tests) == 1, R, f.qname + ': allow_ticketless_pr '
                  'tested per target', f.where(lp), 'found %d tests of '
                  'allow_ticketless_pr in the loop' % len(tests))
        for t in tests:
            recv = t.matched.value
            tgt = lp.target
            rep.check(isinstance(recv, ast.Name) and
                      isinstance(tgt, ast.Name) and recv.id == tgt.id, R,
                      f.qname + ': the flag is read on the loop branch',
                      f.where(t), 'allow_ticketless_pr read on %s' %
                      src(recv))
            for b in c.branch(t, False):
                first = _first_exit(an, f, c, b)
                rep.check(first is not None and first[0] == 'raise' and
                          (first[1] or '').endswith('.MissingJiraId'), R,
                          f.qname + ': a target refusing ticketless PRs '
                          'raises MissingJiraId', f.where(t),
                          'a target that does not allow ticketless pull '
                          'requests leads to %s' % (first,))
    for kind, n, info in explicit_exits(an, f):
        if kind != 'return':
            continue
        v = n.ast.value
        if isinstance(v, ast.Constant) and not v.value:
            rep.evaluated()
            ok, path = c.must_pass(exhausted, n.id)
            rep.check(ok, R, f.qname + ': "no ticket needed" only after '
                      'all targets were consulted', f.where(n),
                      'check_issue_reference answers False without '
                      'consulting every target', path=c.describe_path(path))
        elif isinstance(v, ast.Constant) and v.value:
            key_true = an.branch_nodes(
                f, lambda e: src(e).endswith('jira_issue_key'), True)
            rep.evaluated()
            ok, path = c.must_pass(key_true, n.id)
            rep.check(ok, R, f.qname + ': True only when the branch names '
                      'a ticket', f.where(n), 'check_issue_reference '
                      'answers True without a ticket key',
                      path=c.describe_path(path))
        else:
            rep.violation(R, f.qname + ': constant boolean answers',
                          f.where(n), 'check_issue_reference returns a '
                          'computed value: %s' % src(n.ast))
    for name in ('DevelopmentBranch', 'StabilizationBranch', 'HotfixBranch'):
        k = prog.cls(BR + '.' + name)
        v = class_const(prog, k, 'allow_ticketless_pr')
        rep.check(v is False, 'C11.REG.ticketless', name +
                  '.allow_ticketless_pr is False', k.where(),
                  '%s accepts ticketless pull requests (%r)' % (name, v))


def messages(prog, an, rep):
    R = 'C11.REG.messages'
    seen = {}
    for q, want in FAILURES.items():
        f = need_func(an, q)
        raised = set()
        for n in walk_local(f.node, include_root=False):
            if isinstance(n, ast.Raise) and n.exc is not None:
                k = raise_class(an, f, n)
                if k and k != 'reraise':
                    raised.add(k)
        rep.evaluated()
        ok = raised == {EXC + '.' + want}
        rep.check(ok, R, '%s raises only %s' % (f.name, want), f.where(),
                  '%s raises %s (each failure must have its own message: '
                  'expected %s)' % (f.name, sorted(raised), want))
        for k in raised:
            seen.setdefault(k, []).append(f.name)
            rep.check(prog.is_subclass(k, TEMPLATE), R,
                      k.rpartition('.')[2] + ' is a TemplateException',
                      f.where(), '%s posts no message' % k)
    for k, fs in seen.items():
        rep.check(len(fs) == 1, R, k.rpartition('.')[2] + ' used by one '
                  'check', None, '%s is raised by %s' % (k, fs))
    # registry: unique codes, existing templates
    codes = {}
    n = 0
    for k in prog.subclasses(TEMPLATE, strict=True):
        n += 1
        code = class_const(prog, k, 'code')
        tpl = class_const(prog, k, 'template')
        codes.setdefault(code, []).append(k.name)
        if tpl is None and k.name == 'InformationException':
            continue
        rep.evaluated()
        rep.check(isinstance(tpl, str) and tpl in prog.templates,
                  'C11.REG.template-exists', k.name + '.template exists',
                  k.where(), 'template %r of %s is not in bert_e/templates' %
                  (tpl, k.name))
    rep.floor('C11 TemplateException subclasses', n, 35)
    dup = {c_: ks for c_, ks in codes.items() if len(ks) > 1 and
           set(ks) - {'TemplateException', 'InformationException'} and
           len(set(ks) - {'InformationException'}) > 1}
    rep.check(not dup, 'C11.REG.unique-codes', 'TemplateException codes '
              'are pairwise distinct', EXC.replace('.', '/') + '.py',
              'duplicate codes: %s' % dup)


WANT_HF = ('cmp', ('cascade.target_versions',), 'not in',
           ('fields.fixVersions',))


def fix_versions(prog, an, rep):
    R = 'C11.DEP.fix-versions'
    f = need_func(an, J + '.check_fix_versions')
    d = Deps(an, f, base='job')
    d.f_params_as_base = True
    c = an.cfg(f)
    raises = [n for n in c.nodes.values() if n.kind == 'raise_stmt']
    rep.floor('C11 raise statements in check_fix_versions', len(raises), 1)
    # the comparison that decides each path to a raise (path-sensitive: a
    # boolean local set on both arms of an if is read as the comparison
    # assigned on that path)
    FLIP = {'in': 'not in', 'not in': 'in', '==': '!=', '!=': '==',
            'is': 'is not', 'is not': 'is'}
    sigs = set()
    for path in guard_paths(an, f, [n.id for n in raises]):
        if not path:
            sigs.add(repr(('unconditional',)))
            continue
        atom, pol, _ = path[-1]
        while isinstance(atom, ast.UnaryOp) and isinstance(atom.op, ast.Not):
            atom, pol = atom.operand, not pol
        sg = signature(d, atom, expand=False)
        if sg[0] == 'cmp':
            op = sg[2] if pol else FLIP.get(sg[2], '?' + sg[2])
            # `re.compile(P).match(x)` and `re.match(P, x)`: one filter
            lft, rgt = (tuple(sorted({'re.compile()' if x == 're.match()'
                                      else x for x in side}))
                        if isinstance(side, tuple) and
                        all(isinstance(x, str) for x in side) else side
                        for side in (sg[1], sg[3]))
            if op in ('==', '!='):
                lft, rgt = sorted((lft, rgt), key=repr)
            sg = ('cmp', lft, op, rgt)
        else:
            sg = (sg, pol)
        sigs.add(repr(sg))
    rep.evaluated(2)
    norm = sorted(sigs)
    # 're.compile()' marks a value that went through one of the two
    # version filters: the hotfix target is recognised by a filter and
    # looked up among ALL issue versions; the general comparison uses the
    # FILTERED issue versions against the unfiltered expected versions
    pair = sorted([('fields.fixVersions', 're.compile()'),
                   ('git.cascade.target_versions',)], key=repr)
    want = sorted([
        repr(('cmp', ('git.cascade.target_versions', 're.compile()'),
              'not in', ('fields.fixVersions',))),
        repr(('cmp', pair[0], '!=', pair[1]))])
    rep.check(norm == want, R, f.qname + ': raises iff hotfix target not '
              'listed / checked versions != expected versions', f.where(),
              'fix-version guards are %s, expected %s' % (norm, want),
              detail=str(norm))
    for r in raises:
        k = raise_class(an, f, r.ast)
        rep.check((k or '').endswith('.IncorrectFixVersion'), R,
                  f.qname + ': version mismatch raises '
                  'IncorrectFixVersion', f.where(r),
                  'raises %s' % k)
    # hotfix arm selected only for a single 4-number expected version
    normal_exit_ok = c.exit in c.reachable(use_exc=False)
    rep.check(normal_exit_ok, R, f.qname + ': matching versions pass',
              f.where(), 'check_fix_versions can never return normally')


def normalise(sig):
    """Drop leaves that are constants of the function (regex objects)."""
    if sig[0] == 'cmp':
        def clean(t):
            if isinstance(t, tuple) and t and t[0] == 'const':
                return t
            return tuple(x for x in t if not x.startswith('re.') and
                         not x.endswith('()'))
        return ('cmp', clean(sig[1]), sig[2], clean(sig[3]))
    return sig


def filters(prog, an, rep):
    from ..regexlang import Lang
    R = 'C11.LNG.version-filter'
    f = need_func(an, J + '.check_fix_versions')
    # <compiled pattern>.match(x) uses, the pattern being a local bound to
    # re.compile(...) or the re.compile(...) call itself
    checked = hot = None
    n_pat = 0
    for u in walk_local(f.node, include_root=False):
        m = regex_match(f, u)
        if m is None or m[1] is None:
            continue
        n_pat += 1
        name = src(u.func)[:30]
        pat = const_value(m[0])
        if isinstance(m[1], ast.Name) and _in_comprehension(f, u):
            checked = (name, pat, u)
        else:
            hot = (name, pat, u)
    rep.floor('C11 compiled filters in check_fix_versions', n_pat, 2)
    pats = (checked, hot)
    if checked is None or hot is None:
        raise AnalysisError('anchor-missing version filters (%s)' %
                            sorted(pats))
    digits = r'\d+'
    want_checked = Lang.from_regex(r'^\d+\.\d+\.\d+(\.0)?$')
    want_hot = Lang.from_regex(r'^\d+\.\d+\.\d+\.\d+$')
    for (name, pat, node), want, label in (
            (checked, want_checked, 'x.y.z and x.y.z.0 only (suffixes '
             'ignored)'),
            (hot, want_hot, 'x.y.z.n only')):
        rep.evaluated()
        got = Lang.from_regex(pat, match_semantics=True)
        eqv, witness = got.equivalent(want)
        rep.check(eqv, R, '%s filter %s accepts %s' % (f.name, name, label),
                  f.where(node), 'filter %r differs from the documented '
                  'shape on %r' % (pat, witness), detail=pat)


def _in_comprehension(f, node):
    from ..rules import parent_map
    pm = parent_map(f.node)
    n = node
    while n in pm:
        n = pm[n]
        if isinstance(n, (ast.ListComp, ast.SetComp, ast.GeneratorExp)):
            return True
    return False


def upper_case(prog, an, rep):
    R = 'C11.SIB.upper-case'
    k = prog.cls(BR + '.FeatureBranch')
    init = k.methods.get('__init__')
    if init is None:
        rep.violation(R, 'FeatureBranch.__init__', k.where(),
                      'FeatureBranch no longer normalises its ticket fields')
        return
    for attr in ('jira_issue_key', 'jira_project'):
        rep.evaluated()
        ok = False
        for n in walk_local(init.node, include_root=False):
            if isinstance(n, ast.Assign) and \
                    dotted(n.targets[0]) == 'self.' + attr and \
                    flow_canon(an, init, n.value) == \
                    'self.%s.upper()' % attr:
                ok = True
        rep.check(ok, R, 'FeatureBranch.%s is upper-cased' % attr,
                  init.where(), 'lower-case ticket keys: %s is no longer '
                  'upper-cased' % attr)
    f = need_func(an, J + '.check_project')
    d = Deps(an, f)
    tests = [t for t in an.test_nodes(f, lambda e: isinstance(e,
                                                              ast.Compare))]
    ok = any(isinstance(t.matched.ops[0], ast.NotIn) and
             src(t.matched.left).endswith('src_branch.jira_project') and
             src(t.matched.comparators[0]).endswith('settings.jira_keys')
             for t in tests)
    rep.check(ok, 'C11.DEP.project', f.qname + ': project of the branch '
              'must be in settings.jira_keys', f.where(),
              'check_project no longer tests src_branch.jira_project '
              'not in settings.jira_keys')
    g = need_func(an, J + '.check_issue_type')
    tests = [t for t in an.test_nodes(g, lambda e: isinstance(e,
                                                              ast.Compare))]
    ok = any(isinstance(t.matched.ops[0], ast.NotIn) and
             'prefixes' in src(t.matched.comparators[0]) and
             isinstance(t.matched.left, ast.Name) for t in tests)
    rep.check(ok, 'C11.DEP.issue-type', g.qname + ': issue type must be a '
              'configured one', g.where(), 'check_issue_type no longer '
              'tests the type against settings.prefixes')


def issue_lookup(prog, an, rep):
    R = 'C11.MPT.not-found'
    f = need_func(an, J + '.get_jira_issue')
    c = an.cfg(f)
    t404 = an.branch_nodes(
        f, lambda e: isinstance(e, ast.Compare) and 'status_code' in src(e)
        and http_status_of(e.comparators[0]) == 404 and
        isinstance(e.ops[0], ast.Eq), True)
    raises = [n for n in c.nodes.values() if n.kind == 'raise_stmt' and
              (raise_class(an, f, n.ast) or '').endswith(
                  '.JiraIssueNotFound')]
    rep.floor('C11 JiraIssueNotFound raise sites', len(raises), 1)
    for r in raises:
        rep.evaluated()
        ok, path = c.must_pass(t404, r.id)
        rep.check(ok and bool(t404), R, f.qname + ': only a 404 becomes '
                  'JiraIssueNotFound', f.where(r), 'JiraIssueNotFound is '
                  'raised for errors other than 404',
                  path=c.describe_path(path))
    handlers = [n for n in c.nodes.values() if n.kind == 'handler']
    for h in handlers:
        reach = c.reachable(start=h.id, use_exc=False)
        rep.check(c.exit not in reach, R, f.qname + ': other Jira errors '
                  'propagate', f.where(h), 'a Jira error is swallowed and '
                  'the gate continues without an issue')
