"""C20 - branch and queue admin jobs keep the repository well-formed or do
nothing (refusal-before-effect and ordering clauses)."""
import ast

from ..program import AnalysisError, walk_local, dotted
from ..analysis import Spec, src, const_value
from ..rules import (ctext, value_leaves, strip_wrappers, before, order_of, canon, cond_equiv, substitute_locals, string_template, GWF, EXC, mpt, need_func, stores_to, is_const, kw,
                     parent_map, raise_class, explicit_exits)
from . import common, gitcmds
from .c02 import _site_publishes
from .c12 import _first_exit

JOBS = 'bert_e.jobs'
BR = GWF + '.branches'
GU = 'bert_e.workflow.git_utils'
REFUSALS = ('JobFailure', 'NothingToDo', 'NotMyJob')
HANDLERS = [JOBS + '.create_branch.create_branch',
            JOBS + '.delete_branch.delete_branch',
            JOBS + '.delete_queues.delete_queues',
            JOBS + '.rebuild_queues.rebuild_queues',
            JOBS + '.force_merge_queues.force_merge_queues',
            JOBS + '.eval_pull_request.evaluate_pull_request']


def run(prog, an, rep):
    rep.explain(
        'C20: NEB (no remote effect on any path from the entry of an admin '
        'handler to a refusal exit outside an except block), guard '
        'dominance (each documented precondition of create_branch / '
        'delete_branch dominates the publication / deletion, modulo its '
        'frozen enclosing condition), ARG (queue jobs remove exactly the '
        'remote q/ branches, locally, then publish once; rebuild reads the '
        'queued PRs before deleting and re-submits exactly that list in '
        'order), KWC (force-merge wiring).')
    rep.assume('that queued_prs is the right order (C05) and that the '
               'cascade rules are right (C09) is not decided; partial '
               'failure after the first remote effect (tag push failing '
               'after the q/ branch was deleted) is reported as a note')
    rep.run_rules(prog, an, [refusal_before_effect, create_preconditions,
                             delete_preconditions, queue_jobs,
                             rebuild_order, force_merge, registered,
                             archive_tag_first])


def archive_tag_first(prog, an, rep):
    """"otherwise leaves an archive tag on the deleted tip": the tag is
    created and pushed before the forced deletion (rule shared with C08)."""
    from . import c08
    c08.force_only_from_delete_job(prog, an, rep)


def _effect_nodes(prog, an, f):
    c = an.cfg(f)
    out = []
    for n in c.nodes.values():
        if n.kind not in ('stmt', 'return', 'test', 'iter'):
            continue
        for x in ast.walk(n.ast):
            if not isinstance(x, ast.Call):
                continue
            why = None
            if _site_publishes(an, f, x):
                why = 'publishes'
            elif gitcmds.is_repo_cmd(prog, f, x) and x.args:
                vals = gitcmds.possible_strings(f, x.args[0]) or set()
                if any(v.split()[:2] == ['git', 'push'] for v in vals):
                    why = 'git push'
            elif isinstance(x.func, ast.Attribute) and \
                    x.func.attr == 'put_job':
                why = 'enqueues a job'
            if why:
                out.append((n, why))
                break
    return out


def _in_handler(f, node):
    pm = parent_map(f.node)
    n = node
    while n in pm:
        n = pm[n]
        if isinstance(n, ast.ExceptHandler):
            return n
    return None


def refusal_before_effect(prog, an, rep):
    R = 'C20.NEB.refusal-before-effect'
    partial = []
    total = 0
    for q in HANDLERS:
        f = need_func(an, q)
        c = an.cfg(f)
        eff = _effect_nodes(prog, an, f)
        for n in c.nodes.values():
            if n.kind != 'raise_stmt':
                continue
            k = (raise_class(an, f, n.ast) or '').rpartition('.')[2]
            if k not in REFUSALS:
                continue
            h = _in_handler(f, n.ast)
            before = [(e, why) for e, why in eff
                      if c.path(e.id, n.id, use_exc=True) is not None and
                      e.id != n.id]
            if h is not None:
                # failure of a git / host operation: informational when an
                # effect precedes it
                q_ = prog.resolve_expr(f.module, h.type, f) if h.type \
                    else None
                if before and (q_ or '').rpartition('.')[2] in (
                        'CommandError', 'RemoveFailedException',
                        'PushFailedException'):
                    partial.append('%s (%s after `%s`)' % (
                        f.where(n), k, src(before[0][0].ast)[:40]))
                    continue
                if (q_ or '').rpartition('.')[2] in (
                        'CommandError', 'RemoveFailedException',
                        'PushFailedException'):
                    continue
            total += 1
            rep.evaluated()
            rep.check(not before, R, '%s: %s at L%d precedes every remote '
                      'effect' % (f.qname, k, n.lineno), f.where(n),
                      'the job can refuse (%s) after `%s` already %s: a '
                      'refusing job does not leave the remote untouched' % (
                          k, src(before[0][0].ast)[:50].replace('\n', ' ')
                          if before else '', before[0][1] if before else ''))
    rep.floor('C20 refusal exits of admin handlers', total, 14)
    if partial:
        rep.note('N-C20-1 (informational): git/host failures reported as '
                 'JobFailure after a first remote effect: %s' %
                 '; '.join(partial))


def _guard_ifs(an, f, upto):
    """If statements (not in except blocks) whose body starts by raising a
    refusal, located before the statement `upto` in source order (None: all
    of them)."""
    out = []
    for n in walk_local(f.node, include_root=False):
        if isinstance(n, ast.If) and (upto is None or before(f, n, upto)):
            for s in n.body:
                if isinstance(s, ast.Raise):
                    k = (raise_class(an, f, s) or '').rpartition('.')[2]
                    if k in REFUSALS and _in_handler(f, s) is None:
                        out.append((n, s, k))
    return out


def _msg(raise_stmt):
    parts = [x.value for x in ast.walk(raise_stmt)
             if isinstance(x, ast.Constant) and isinstance(x.value, str)]
    return ' '.join(parts)


def _passing(an, f, c, ifnode, raise_stmt):
    """Branch nodes of the guard's atoms from which the raise is not
    reachable (the edges on which the guard lets the job through)."""
    rn = [n.id for n in c.nodes.values() if n.kind == 'raise_stmt' and
          n.ast is raise_stmt]
    atoms = [n for n in c.nodes.values() if n.kind == 'test' and
             any(n.ast is x for x in ast.walk(ifnode.test))]
    out = []
    for t in atoms:
        for v in (True, False):
            for b in c.branch(t, v):
                reach = c.reachable(start=b, use_exc=False,
                                    stop=[a.id for a in atoms if a is not t])
                direct = any(r in reach for r in rn)
                # also not through the remaining atoms
                full = c.reachable(start=b, use_exc=False)
                if not any(r in full for r in rn):
                    out.append(b)
                elif not direct:
                    pass
    return out, atoms


def _enclosing_skips(an, f, c, ifnode):
    """(texts of enclosing if-tests, branch nodes that skip the guard by
    not entering the enclosing if / by taking its other arm)."""
    pm = parent_map(f.node)
    texts = []
    skips = []
    n = ifnode
    while n in pm:
        p_ = pm[n]
        if isinstance(p_, ast.If) and n is not p_.test:
            in_body = any(n is s or _contains(s, n) for s in p_.body)
            texts.append(('' if in_body else 'else: ', p_.test))
            atoms = [t for t in c.nodes.values() if t.kind == 'test' and
                     any(t.ast is x for x in ast.walk(p_.test))]
            first = _first_node(c, ifnode)
            for t in atoms:
                for v in (True, False):
                    for b in c.branch(t, v):
                        if first not in c.reachable(start=b, use_exc=False):
                            skips.append(b)
        if isinstance(p_, (ast.FunctionDef, ast.AsyncFunctionDef)):
            break
        n = p_
    return texts, skips


def _contains(root, node):
    return any(x is node for x in ast.walk(root))


def _first_node(c, ifnode):
    ids = []
    for x in ast.walk(ifnode.test):
        ids += c.copies.get(id(x), [])
    return min(ids) if ids else None


def _check_guards(prog, an, rep, f, target_nodes, table, what, expect=None,
                  test_of=None):
    R = 'C20.MPT.preconditions'
    expect = expect or {}
    c = an.cfg(f)
    order = order_of(f)
    upto = min((c.nodes[t].ast for t in target_nodes),
               key=lambda a_: order.get(id(a_), 10 ** 9))
    guards = _guard_ifs(an, f, upto)
    seen = {}
    combined = set()
    for ifn, rs, kind in guards:
        msg = _msg(rs)
        key = None
        for k in table:
            if k == kind or (k != kind and k in msg):
                if k in REFUSALS and k != kind:
                    continue
                key = k
                if k in msg:
                    break
        if key is None:
            rep.violation(R, '%s: unknown refusal guard at L%d' % (
                f.qname, ifn.lineno), f.where(ifn), 'a new refusal guard '
                '(%s: %s) is not in the frozen precondition table: '
                'classify it' % (kind, msg[:60]))
            continue
        seen[key] = (ifn, rs)
        passing, atoms = _passing(an, f, c, ifn, rs)
        texts, skips = _enclosing_skips(an, f, c, ifn)
        allowed = table[key]
        rep.evaluated()
        same = len(texts) == len(allowed)
        for (pre, test), want in zip(texts, allowed):
            wpre = 'else: ' if want.startswith('else: ') else ''
            # (`else:` of a test is the `then` of its negation)
            got_l = ast.UnaryOp(op=ast.Not(), operand=test) if pre else test
            want_l = ast.parse(want[len(wpre):], mode='eval').body
            if wpre:
                want_l = ast.UnaryOp(op=ast.Not(), operand=want_l)
            same = same and cond_equiv(f, got_l, want_l)
        shown = [pre + canon(f, t) for pre, t in texts]
        if not same and key in expect:
            # a conjunct may sit in the enclosing test or in the guard's
            # own: what has to agree is when the refusal happens
            def conj(parts):
                vals = []
                for pre, t in parts:
                    t = ast.parse(t, mode='eval').body \
                        if isinstance(t, str) else t
                    vals.append(ast.UnaryOp(op=ast.Not(), operand=t)
                                if pre else t)
                return vals[0] if len(vals) == 1 else ast.BoolOp(
                    op=ast.And(), values=vals)
            own = test_of(ifn) if test_of is not None else ifn.test
            got = conj(list(texts) + [('', own)])
            want_c = conj([('else: ' if w.startswith('else: ') else '',
                            w[6:] if w.startswith('else: ') else w)
                           for w in allowed] + [('', expect[key])])
            if cond_equiv(f, got, want_c):
                same = True
                combined.add(key)
        rep.check(same, R, '%s: guard "%s" applies under %s' % (
            f.qname, key, allowed or 'no condition'), f.where(ifn),
            'guard "%s" is now nested under %s (expected %s): it no longer '
            'applies to every request it should' % (key, shown, allowed))
        for t in target_nodes:
            rep.evaluated()
            ok, path = c.must_pass(passing + skips, t)
            rep.check(ok and bool(passing), R, '%s: "%s" checked before %s'
                      % (f.qname, key, what), f.where(c.nodes[t]),
                      '%s is reachable without the precondition "%s" '
                      'having let the job through' % (what, key),
                      path=c.describe_path(path))
    for k in table:
        rep.evaluated()
        rep.check(k in seen, R, '%s: precondition "%s" exists' % (f.qname,
                                                                  k),
                  f.where(), 'the precondition "%s" is gone: the job no '
                  'longer refuses in that case' % k)
    seen['__combined__'] = combined
    return seen


# Conditions are written without locals (the checker replaces every
# single-binding local by what it stands for before comparing), and are
# compared as boolean functions, not as text.
REPO = 'clone_git_repo(job)'
B = 'branch_factory(%s, job.settings.branch)' % REPO
DEVS = 'BranchCascade().get_development_branches()'
FROM = "'branch_from' in job.settings and job.settings['branch_from']"
CREATE_TABLE = {
    'NothingToDo': [],
    'is not a GWF destination branch': [],
    'already an archive tag': [],
    'is not included in latest development branch': [FROM],
    'without a supporting development branch':
        ['isinstance(%s, StabilizationBranch)' % B, 'else: ' + FROM],
    'due to queued data':
        ['job.settings.use_queue and not isinstance(%s, '
         '(StabilizationBranch, HotfixBranch)) and %s < %s[-1]' % (B, B,
                                                                   DEVS)],
}
DELETE_TABLE = {
    'is not a GWF destination branch': [],
    'NothingToDo': [],
    'already an archive tag': [],
    'active stabilization branch':
        ['not isinstance(%s, (StabilizationBranch, HotfixBranch))' % B],
    'due to queued data': ['job.settings.use_queue'],
}
KINDS = 'not isinstance(%s, (DevelopmentBranch, StabilizationBranch, ' \
    'HotfixBranch))' % B


def _with_stored(f, guard):
    """The guard's test, with an attribute path that a statement just
    before it (same block) assigns written out as the assigned value:
        job.settings.x = V
        if job.settings.x not in ...:      ->   V not in ..."""
    import copy
    pm = parent_map(f.node)
    up = pm.get(guard)
    block = None
    for name in ('body', 'orelse', 'finalbody'):
        if guard in (getattr(up, name, None) or []):
            block = getattr(up, name)
    test = guard.test
    if block is None:
        return test
    stored = {}
    for st in block[:block.index(guard)]:
        if isinstance(st, ast.Assign) and len(st.targets) == 1 and \
                isinstance(st.targets[0], ast.Attribute):
            stored[src(st.targets[0])] = st.value
        else:
            for n in ast.walk(st):
                if isinstance(n, ast.Attribute) and \
                        isinstance(n.ctx, ast.Store):
                    stored.pop(src(n), None)
    if not stored:
        return test

    class T(ast.NodeTransformer):
        def visit_Attribute(self, node):
            if isinstance(node.ctx, ast.Load) and src(node) in stored:
                return copy.deepcopy(stored[src(node)])
            return self.generic_visit(node)
    return T().visit(copy.deepcopy(test))


def _repo_alias(prog, an, rep, f):
    """clone_git_repo(job) returns job.git.repo: in a job handler that called
    it, the two texts denote one object (canonical: the call)."""
    g = need_func(an, GU + '.clone_git_repo')
    rets = [r for r in walk_local(g.node, include_root=False)
            if isinstance(r, ast.Return)]
    same = bool(rets) and all(
        r.value is not None and
        canon(g, r.value) == g.params[0] + '.git.repo' for r in rets)
    rep.check(same, 'C20.ARG.preconditions', g.qname + ' returns '
              'job.git.repo', g.where(), 'clone_git_repo returns %s' %
              [src(r.value) if r.value is not None else None for r in rets])
    if same and an.direct_calls(f, Spec.func(g.qname)):
        f.aliases = [(f.params[0] + '.git.repo',
                      'clone_git_repo(%s)' % f.params[0])]


def create_preconditions(prog, an, rep):
    f = need_func(an, JOBS + '.create_branch.create_branch')
    _repo_alias(prog, an, rep, f)
    c = an.cfg(f)
    pushes = [n.id for n in an.target_nodes(f, Spec.func(GU + '.push'),
                                            depth=0)]
    rep.floor('C20 pushes in create_branch', len(pushes), 1)
    R = 'C20.ARG.preconditions'
    # what each guard tests
    expect = {
        'NothingToDo': 'job.settings.branch in %s.remote_branches' % REPO,
        'already an archive tag':
            "%s.version in %s.cmd('git tag').split('\\n')[:-1]" % (B, REPO),
        'is not included in latest development branch':
            'not %s[-1].includes_commit(job.settings.branch_from)' % DEVS,
        'without a supporting development branch':
            "DevelopmentBranch(%s, 'development/%%s.%%s' %% (%s.major, "
            "%s.minor)) not in %s" % (REPO, B, B, DEVS),
        'due to queued data': 'build_queue_collection(job).queued_prs',
        'is not a GWF destination branch': KINDS,
    }
    seen = _check_guards(prog, an, rep, f, pushes, CREATE_TABLE,
                         'the new branch is pushed', expect,
                         lambda g_: _with_stored(f, g_))
    combined = seen.pop('__combined__')
    for k, text in expect.items():
        if k in seen and k not in combined:
            rep.evaluated()
            rep.check(cond_equiv(f, _with_stored(f, seen[k][0]), text), R,
                      '%s: "%s" tests %s' % (f.qname, k, text),
                      f.where(seen[k][0]), 'guard "%s" now tests %s' % (
                          k, canon(f, seen[k][0].test)))
    # unrecognised names are refused
    hs = [n for n in c.nodes.values() if n.kind == 'handler' and
          n.ast.type is not None and
          (dotted(n.ast.type) or '').endswith('UnrecognizedBranchPattern')]
    ok = False
    for h in hs:
        first = _first_exit(an, f, c, h.id)
        ok = first is not None and first[0] == 'raise' and \
            (first[1] or '').endswith('.JobFailure')
    rep.check(ok, R, f.qname + ': an unrecognised name is refused',
              f.where(), 'UnrecognizedBranchPattern is not converted to '
              'JobFailure')
    # after the push: queue rebuild for development branches with queues
    rb = [n for n in c.nodes.values() if n.kind == 'stmt' and
          'RebuildQueuesJob' in src(n.ast)]
    # (the job may be built in a local first: compare what process()
    # receives once the locals are written out)
    proc = [n for n in c.nodes.values() if n.kind == 'stmt' and
            isinstance(n.ast, ast.Expr) and
            canon(f, n.ast.value).startswith(
                '%s.bert_e.process(RebuildQueuesJob(' % f.params[0])]
    rep.check(len(rb) == 1 and len(proc) == 1, R, f.qname + ': queues are '
              'rebuilt after a development branch is added', f.where(),
              'RebuildQueuesJob is no longer processed after the push')
    for n in proc:
        ok, path = c.must_pass([c.done_of(c.nodes[p_])[0] for p_ in pushes
                                if c.done_of(c.nodes[p_])], n.id)
        rep.check(ok, R, f.qname + ': the rebuild follows the push',
                  f.where(n), 'queues are rebuilt before the branch exists',
                  path=c.describe_path(path))
    # a failed push is a JobFailure
    okp = False
    for h in [n for n in c.nodes.values() if n.kind == 'handler']:
        if (dotted(h.ast.type) or '').endswith('CommandError'):
            first = _first_exit(an, f, c, h.id)
            okp = okp or (first is not None and first[0] == 'raise' and
                          (first[1] or '').endswith('.JobFailure'))
    rep.check(okp, R, f.qname + ': a rejected push is reported as '
              'JobFailure', f.where(), 'push failure is not reported')


def delete_preconditions(prog, an, rep):
    f = need_func(an, JOBS + '.delete_branch.delete_branch')
    _repo_alias(prog, an, rep, f)
    c = an.cfg(f)
    dd = Spec.func(JOBS + '.delete_branch.do_delete')
    targets = []
    for n in an.target_nodes(f, dd, depth=0):
        for x in ast.walk(n.ast):
            if isinstance(x, ast.Call) and an.call_matches(f, x, dd) and \
                    kw(x, 'force') is not None:
                targets.append(n.id)
    rep.floor('C20 forced deletions in delete_branch', len(targets), 1)
    first_effect = [n.id for n, _ in _effect_nodes(prog, an, f)]
    R = 'C20.ARG.preconditions'
    expect = {
        'NothingToDo': 'job.settings.branch not in %s.remote_branches' % REPO,
        'due to queued data':
            'build_queue_collection(job).has_version_queued_prs('
            '%s.version_t)' % B,
        'already an archive tag':
            "not isinstance(%s, HotfixBranch) and %s.version in "
            "%s.cmd('git tag').split('\\n')[:-1]" % (B, B, REPO),
        'is not a GWF destination branch': KINDS,
    }
    seen = _check_guards(prog, an, rep, f, targets + first_effect[:1],
                         DELETE_TABLE, 'the branch is deleted', expect)
    combined = seen.pop('__combined__')
    for k, text in expect.items():
        if k in seen and k not in combined:
            rep.evaluated()
            rep.check(cond_equiv(f, seen[k][0].test, text), R,
                      '%s: "%s" tests %s' % (f.qname, k, text),
                      f.where(seen[k][0]), 'guard "%s" now tests %s' % (
                          k, canon(f, seen[k][0].test)))
    if 'active stabilization branch' in seen:
        test = substitute_locals(f, seen['active stabilization branch'][0]
                                 .test)
        while isinstance(test, ast.Call) and src(test.func) in (
                'any', 'list') and len(test.args) == 1:
            test = test.args[0]
        ok = False
        if isinstance(test, (ast.ListComp, ast.GeneratorExp)) and \
                len(test.generators) == 1:
            g = test.generators[0]
            e = test.elt
            if isinstance(e, ast.Call) and \
                    isinstance(e.func, ast.Attribute) and \
                    e.func.attr == 'startswith' and len(e.args) == 1 and \
                    src(e.func.value) == src(g.target) and not g.ifs:
                t = string_template(e.args[0])
                ok = t is not None and t[0] == 'stabilization/{}' and \
                    canon(f, t[1][0]) == B + '.version' and \
                    canon(f, strip_wrappers(substitute_locals(f, g.iter),
                                            ('list', 'tuple', 'sorted'))) == \
                    REPO + '.remote_branches'
        rep.check(ok, R, f.qname + ': live stabilization branches of that '
                  'version block the deletion', f.where(),
                  'stabilization test is %s' % canon(
                      f, seen['active stabilization branch'][0].test))
    # archive tag for hotfix branches has its own suffix
    # (the local that is tagged: the hole of the 'git tag {}' command)
    tagv = {src(h[0]) for n_ in walk_local(f.node, include_root=False)
            if isinstance(n_, (ast.BinOp, ast.JoinedStr, ast.Call))
            for h in [(string_template(n_) or ('', []))[1]]
            if (string_template(n_) or ('',))[0] == 'git tag {}' and h}
    at = [canon(f, v) for name in tagv
          for v in value_leaves(f, ast.Name(id=name, ctx=ast.Load()))
          if v is not None]
    # a conditional expression on the kind of the branch: both readings
    from ..rules import simplify_under
    hot = 'isinstance(%s, HotfixBranch)' % B
    for txt in list(at):
        try:
            e_ = ast.parse(txt, mode='eval').body
        except SyntaxError:
            continue
        if not any(isinstance(x, ast.IfExp) for x in ast.walk(e_)):
            continue
        for val in (True, False):
            t_ = string_template(simplify_under(f, e_, {hot: val}))
            if t_ is not None and len(t_[1]) == 1 and \
                    canon(f, t_[1][0]) == B + '.version':
                at.append(B + '.version' if t_[0] == '{}' else
                          B + '.version + %r' % t_[0][2:])
    rep.check(B + '.version' in at and any(
        'archived_hotfix_branch' in x for x in at), R, f.qname +
        ': archive tag = version (hotfix: suffixed)', f.where(),
        'archive tag is %s' % at)
    # the queue of the deleted version is deleted as a q/ branch only
    qd = [x for x in prog.calls_in(f) if an.call_matches(f, x, dd) and
          kw(x, 'force') is None]
    for x in qd:
        vs = [v for _, v in stores_to(f, src(x.args[0])) if v is not None] \
            if isinstance(x.args[0], ast.Name) else [x.args[0]]
        v0 = substitute_locals(f, vs[0]) if len(vs) == 1 else None
        t = string_template(v0.args[1]) if isinstance(v0, ast.Call) and \
            len(v0.args) == 2 and not v0.keywords else None
        ok = t is not None and src(v0.func) == 'QueueBranch' and \
            canon(f, v0.args[0]) == REPO and t[0] == 'q/{}' and \
            canon(f, t[1][0]) == B + '.version'
        rep.check(ok, R, f.qname + ': unforced deletion only of the q/ '
                  'branch of that version', f.where(x), 'do_delete(%s) '
                  'bound to %s' % (src(x.args[0]), [src(v) for v in vs]))
    dfn = need_func(an, JOBS + '.delete_branch.do_delete')
    rm = [x for x in prog.calls_in(dfn)
          if isinstance(x.func, ast.Attribute) and x.func.attr == 'remove']
    ok = len(rm) == 1 and {k.arg: src(k.value) for k in rm[0].keywords} == {
        'del_local': 'False', 'force': 'force', 'do_push': 'True'}
    rep.check(ok, R, dfn.qname + ': remote deletion, guard forwarded',
              dfn.where(), 'do_delete removes with %s' % [src(x)
                                                           for x in rm])


def queue_jobs(prog, an, rep):
    R = 'C20.ARG.queue-jobs'
    for q in (JOBS + '.delete_queues.delete_queues',
              JOBS + '.rebuild_queues.rebuild_queues'):
        f = need_func(an, q)
        c = an.cfg(f)
        nm = an.branch_nodes(f, lambda e: src(e).endswith(
            'settings.use_queue'), False)
        first = None
        for b in nm:
            first = _first_exit(an, f, c, b)
        rep.evaluated()
        rep.check(first is not None and first[0] == 'raise' and
                  (first[1] or '').endswith('.NotMyJob'), R, f.qname +
                  ': queues disabled -> NotMyJob', f.where(),
                  'with queues disabled the job does %s' % (first,))
        eff = [n.id for n, _ in _effect_nodes(prog, an, f)]
        for e in eff:
            ok, path = c.must_pass(an.branch_nodes(
                f, lambda e_: src(e_).endswith('settings.use_queue'), True),
                e)
            rep.check(ok, R, f.qname + ': effects only with queues enabled',
                      f.where(c.nodes[e]), 'a remote effect without the '
                      'use_queue check', path=c.describe_path(path))
        # the list that is removed: [branch_factory(repo, n) for n in
        # <repo>.remote_branches if n.startswith('q/')] -- found from the
        # removal loop, whatever the list and its variables are called
        rm_loops = [lp for lp in walk_local(f.node, include_root=False)
                    if isinstance(lp, ast.For) and any(
                        isinstance(x, ast.Call) and
                        isinstance(x.func, ast.Attribute) and
                        x.func.attr == 'remove' for x in ast.walk(lp))]
        qvar = src(rm_loops[0].iter) if rm_loops else None
        qb = [v for _, v in stores_to(f, qvar) if v is not None] \
            if qvar else []
        ok = False
        if len(qb) == 1 and isinstance(qb[0], ast.ListComp) and \
                len(qb[0].generators) == 1:
            g = qb[0].generators[0]
            v = src(g.target)
            ok = canon(f, g.iter).endswith('.remote_branches') and \
                [src(i) for i in g.ifs] == ["%s.startswith('q/')" % v] and \
                isinstance(qb[0].elt, ast.Call) and \
                src(qb[0].elt.func) == 'branch_factory' and \
                len(qb[0].elt.args) == 2 and src(qb[0].elt.args[1]) == v
        rep.evaluated()
        rep.check(ok, R, f.qname + ': removes exactly the remote q/ '
                  'branches', f.where(), 'queue_branches = %s' %
                  [src(v) for v in qb])
        pm = parent_map(f.node)
        rms = [x for x in prog.calls_in(f)
               if isinstance(x.func, ast.Attribute) and
               x.func.attr == 'remove']
        rep.floor('C20 removals in ' + f.name, len(rms), 1)
        for x in rms:
            loop = x
            while loop in pm and not isinstance(loop, ast.For):
                loop = pm[loop]
            ok = isinstance(loop, ast.For) and \
                src(loop.iter) == qvar and \
                src(x.func.value) == loop.target.id and \
                common.do_push_at(x, 'remove') is False and \
                kw(x, 'force') is None
            rep.evaluated()
            rep.check(ok, R, f.qname + ': local, unforced removal of each '
                      'queue branch', f.where(x), 'removal is %s in loop '
                      'over %s' % (src(x), src(loop.iter) if isinstance(
                          loop, ast.For) else '?'))
        pushes = an.direct_calls(f, Spec.func(GU + '.push'))
        ok = len(pushes) == 1 and not (len(pushes[0].args) > 1 or
                                       kw(pushes[0], 'branches'))
        rep.check(ok, R, f.qname + ': one publication', f.where(),
                  '%d pushes' % len(pushes))
        # success is reported
        okx = all(kind == 'raise' and (info or '').rpartition('.')[2] in (
            'JobSuccess', 'NotMyJob') for kind, node, info in
            explicit_exits(an, f))
        rep.check(okx, R, f.qname + ': ends with JobSuccess / NotMyJob',
                  f.where(), 'exits: %s' % [(k, i) for k, _, i in
                                            explicit_exits(an, f)])


def rebuild_order(prog, an, rep):
    R = 'C20.MPT.rebuild-order'
    f = need_func(an, JOBS + '.rebuild_queues.rebuild_queues')
    c = an.cfg(f)
    # the local that keeps the queued pull requests: bound, once, to
    # build_queue_collection(job).queued_prs
    qp = []
    for st in walk_local(f.node, include_root=False):
        if isinstance(st, ast.Assign) and len(st.targets) == 1 and \
                isinstance(st.targets[0], ast.Name) and \
                canon(f, st.value) == 'build_queue_collection(%s).' \
                'queued_prs' % f.params[0]:
            qp.append((st, st.value))
    ok = len(qp) == 1 and len(stores_to(f, qp[0][0].targets[0].id)) == 1
    qvar = qp[0][0].targets[0].id if qp else None
    rep.evaluated()
    rep.check(ok, R, f.qname + ': queued_prs read from the queue '
              'collection, once', f.where(), 'queued_prs = %s' %
              [src(v) for _, v in qp])
    if not ok:
        return
    read_done = c.done_node[id(qp[0][0])]
    rms = [n for n in c.nodes.values() if n.kind == 'stmt' and any(
        isinstance(x, ast.Call) and isinstance(x.func, ast.Attribute) and
        x.func.attr == 'remove' for x in ast.walk(n.ast))]
    pushes = [n for n in c.nodes.values() if n.kind == 'stmt' and any(
        isinstance(x, ast.Call) and an.call_matches(f, x, Spec.func(
            GU + '.push')) for x in ast.walk(n.ast))]
    for n in rms + pushes:
        rep.evaluated()
        ok, path = c.must_pass([read_done], n.id)
        rep.check(ok, R, f.qname + ': the queued PRs are read before `%s`' %
                  src(n.ast)[:30], f.where(n), 'the queue is deleted before '
                  'its pull requests were read: nothing is re-submitted',
                  path=c.describe_path(path))
    loops = [n for n in walk_local(f.node, include_root=False)
             if isinstance(n, ast.For) and src(n.iter) == qvar]
    rep.evaluated()
    rep.check(len(loops) == 1, R, f.qname + ': re-submission iterates '
              'queued_prs in order', f.where(), 'no loop over queued_prs '
              '(reversed / sorted / filtered?)')
    for lp in loops:
        body = src(lp)
        pid = lp.target.id if isinstance(lp.target, ast.Name) else '?'
        pj = [x for x in ast.walk(lp) if isinstance(x, ast.Call) and
              prog.callee(f, x) == ('class', 'bert_e.job.PullRequestJob')]
        put = [x for x in ast.walk(lp) if isinstance(x, ast.Call) and
               isinstance(x.func, ast.Attribute) and
               x.func.attr == 'put_job']
        # (the job may be built in a local first: compare what put_job
        # receives once the locals are written out)
        put_arg = canon(f, put[0].args[0]) if len(put) == 1 and \
            put[0].args else ''
        ok = len(pj) == 1 and len(put) == 1 and \
            'get_pull_request(%s)' % ctext(f, pid) in canon(f, pj[0]) and \
            put_arg == canon(f, pj[0]) and \
            not any(isinstance(x, (ast.If, ast.Continue, ast.Break))
                    for x in ast.walk(lp))
        rep.evaluated()
        rep.check(ok, R, f.qname + ': every queued PR is re-submitted as a '
                  'PullRequestJob', f.where(lp), 're-submission loop is %s' %
                  body[:120])
        head = c.stmt_node[id(lp)]
        for p_ in pushes:
            ok, path = c.must_pass(c.done_of(p_), head)
            rep.check(ok, R, f.qname + ': re-submission after the queues '
                      'were deleted remotely', f.where(lp), 'pull requests '
                      'are re-submitted before the old queue is gone',
                      path=c.describe_path(path))
    # empty queue: nothing deleted, success
    rm_loops = [lp for lp in walk_local(f.node, include_root=False)
                if isinstance(lp, ast.For) and any(
                    isinstance(x, ast.Call) and
                    isinstance(x.func, ast.Attribute) and
                    x.func.attr == 'remove' for x in ast.walk(lp))]
    qlist = {src(lp.iter) for lp in rm_loops}
    eb = an.branch_nodes(f, lambda e: src(e) in qlist, False, expand=None)
    # the queues are left alone only when there is none: the job ends well
    # without deleting only past the "no q/ branch" test
    heads = [c.stmt_node[id(lp)] for lp in rm_loops]
    for n in c.nodes.values():
        if n.kind == 'raise_stmt' and (raise_class(an, f, n.ast) or
                                       '').endswith('.JobSuccess'):
            rep.evaluated()
            ok, path = c.must_pass(eb + heads, n.id)
            rep.check(ok and bool(eb), R, f.qname + ': ends without '
                      'deleting only when there is no q/ branch', f.where(n),
                      'the job can report success with the q/ branches '
                      'still there (the test that skips the deletion does '
                      'not look at the list of q/ branches)',
                      path=c.describe_path(path))
    # without queue branches the job ends as a success: every other way out
    # that can be reached past the "no q/ branch" outcome needs the list to
    # be non-empty (decided along the paths, so that the same test made
    # twice reads the same)
    tb = an.branch_nodes(f, lambda e: src(e) in qlist, True, expand=None)
    ok_out = [n.id for n in c.nodes.values() if n.kind == 'raise_stmt' and
              (raise_class(an, f, n.ast) or '').endswith('.JobSuccess')]
    after = set()
    for b in eb:
        after |= set(c.reachable(start=b, use_exc=False))
    outs = [n for n in c.nodes.values() if n.id in after and (
        n.kind == 'raise_stmt' or n.id == c.exit) and n.id not in ok_out]
    for n in outs:
        rep.evaluated()
        ok, path = c.must_pass(tb + ok_out, n.id, use_exc=False)
        rep.check(ok, R, f.qname + ': no queue branch -> JobSuccess',
                  f.where(n) if n.ast is not None else f.where(),
                  'without queue branches the job can end otherwise than '
                  'with JobSuccess', path=c.describe_path(path))
    rep.check(bool(eb) and bool(ok_out), R, f.qname + ': no queue branch '
              '-> JobSuccess (the outcome exists)', f.where(),
              'no test on the list of q/ branches, or no JobSuccess')


def force_merge(prog, an, rep):
    R = 'C20.KWC.force-merge'
    f = need_func(an, JOBS + '.force_merge_queues.force_merge_queues')
    calls = [x for x in prog.calls_in(f)
             if prog.callee(f, x) == ('class', 'bert_e.job.QueuesJob')]
    ok = len(calls) == 1 and is_const(kw(calls[0], 'force_merge'), True) \
        and src(kw(calls[0], 'bert_e') or ast.Constant(value=0)) == \
        'job.bert_e'
    rep.evaluated()
    rep.check(ok, R, f.qname + ': QueuesJob(force_merge=True)', f.where(),
              'builds %s' % [src(x) for x in calls])
    hm = an.direct_calls(f, Spec.func(GWF + '.queueing.handle_merge_queues'))
    rep.check(len(hm) == 1 and calls and hm[0].args and
              hm[0].args[0] is calls[0], R, f.qname + ': runs the queue '
              'merge on that job', f.where(), 'handle_merge_queues(%s)' %
              [src(x) for x in hm])
    c = an.cfg(f)
    first = None
    for b in an.branch_nodes(f, lambda e: src(e).endswith(
            'settings.use_queue'), False):
        first = _first_exit(an, f, c, b)
    rep.check(first is not None and (first[1] or '').endswith('.NotMyJob'),
              R, f.qname + ': queues disabled -> NotMyJob', f.where(),
              'with queues disabled: %s' % (first,))
    ev = need_func(an, JOBS + '.eval_pull_request.evaluate_pull_request')
    pj = [x for x in prog.calls_in(ev)
          if prog.callee(ev, x) == ('class', 'bert_e.job.PullRequestJob')]
    prv = canon(ev, kw(pj[0], 'pull_request')) if len(pj) == 1 and \
        kw(pj[0], 'pull_request') is not None else ''
    rep.check(len(pj) == 1 and prv == '%s.project_repo.get_pull_request('
              '%s.settings.pr_id)' % (ev.params[0], ev.params[0]) and
              'job.bert_e.process' in src(ev.node), 'C20.ARG.eval',
              ev.qname + ': evaluates the requested pull request through '
              'the normal workflow', ev.where(), 'builds %s' %
              [src(x) for x in pj])


def registered(prog, an, rep):
    R = 'C20.REG.handlers'
    want = {'create_branch': 'CreateBranchJob',
            'delete_branch': 'DeleteBranchJob',
            'delete_queues': 'DeleteQueuesJob',
            'rebuild_queues': 'RebuildQueuesJob',
            'force_merge_queues': 'ForceMergeQueuesJob',
            'evaluate_pull_request': 'EvalPullRequestJob'}
    for q in HANDLERS:
        f = need_func(an, q)
        decs = [src(d) for d in f.decorators]
        rep.evaluated()
        rep.check(decs == ['handler(%s)' % want[f.name]], R,
                  '%s handles %s' % (f.name, want[f.name]), f.where(),
                  'decorators are %s' % decs)
    m = prog.by_name.get('bert_e.jobs')
