"""C01 - forward-port inclusion of destination branches (merge-shape clause).
"""
import ast

from ..program import AnalysisError, walk_local, dotted
from ..analysis import Spec, src, const_value
from ..rules import (locals_bound_to, first_rest, flow_canon, canon, string_template, substitute_locals, inside, before, GWF, EXC, mpt, need_func, stores_to, raise_class,
                     parent_map, kw, is_const, strip_wrappers, eval_atom,
                     UNKNOWN)
from . import common
from .c12 import _first_exit

GIT = 'bert_e.lib.git'
GU = 'bert_e.workflow.git_utils'
Q = GWF + '.queueing'
I = GWF + '.integration'
BR = GWF + '.branches'
HELPERS = (GU + '.robust_merge', GU + '.consecutive_merge',
           GU + '.octopus_merge')

# every direct <branch>.merge(...) call site outside the three merge helpers:
# function -> (role of the receiver, what the site is, max number of sites)
MERGE_SITES = {
    I + '.merge_integration_branches': ('dst-of-first', 'first target <- its '
                                        'integration branch', 1),
    Q + '.merge_queues': ('dst-of-queue', 'destination <- newest mergeable '
                          'queue branch', 1),
    Q + '.add_to_queue': ('first-queue', 'first queue <- first integration '
                          'branch', 1),
    I + '.check_conflict': ('robot-named', 'temporary branch (conflict '
                            'probe)', 1),
}
ROBOT_PREFIXES = ('w/', 'q/', 'tmp/')


def _unpack_first(f, name):
    """If `name` is the first element of `name, *rest = LIST`, return
    (rest name, LIST expr)."""
    for first, rest, lst in first_rest(f):
        if first == name and rest is not None:
            return rest, lst
    return None


def _robot_named(f, recv):
    """recv is a local every binding of which constructs a branch whose
    name starts with a robot prefix (w/ q/ tmp/)."""
    if not isinstance(recv, ast.Name):
        return False
    vals = [v for _, v in stores_to(f, recv.id)]
    if not vals or any(v is None for v in vals):
        return False
    for v in vals:
        if isinstance(v, ast.Call) and src(v.func) in (
                'get_queue_integration_branch', 'get_queue_branch'):
            continue
        if not (isinstance(v, ast.Call) and src(v.func) in (
                'branch_factory', 'git.Branch', 'GhostIntegrationBranch')
                and len(v.args) >= 2):
            return False
        if src(v.func) == 'GhostIntegrationBranch':
            continue        # stands for the source branch, create is a no-op
        t = string_template(substitute_locals(f, v.args[1]))
        if t is None or not t[0].startswith(ROBOT_PREFIXES):
            return False
    return True


def _queue_list(an, f, expr):
    """expr names the list [get_queue_branch(job, w.dst_branch) for w in
    <integration branches>]."""
    if not isinstance(expr, ast.Name):
        return False
    vals = [v for _, v in stores_to(f, expr.id) if v is not None]
    for v in vals:
        if isinstance(v, ast.ListComp) and len(v.generators) == 1 and \
                isinstance(v.elt, ast.Call) and an.call_matches(
                    f, v.elt, Spec.func(Q + '.get_queue_branch')) and \
                len(v.elt.args) == 2 and not v.generators[0].ifs and \
                src(v.elt.args[1]) == src(v.generators[0].target) + \
                '.dst_branch':
            return True
    return False


def _role_ok(an, f, role, call):
    recv = call.func.value
    text = canon(f, recv)
    if role == 'dst-of-first':
        return text.endswith('.dst_branch') and len(call.args) == 1 and \
            src(call.args[0]) + '.dst_branch' == src(recv)
    if role == 'dst-of-queue':
        return text.endswith('[QueueBranch].dst_branch')
    if role == 'first-queue':
        u = _unpack_first(f, recv.id) if isinstance(recv, ast.Name) else None
        return u is not None and _queue_list(an, f, u[1])
    if role == 'robot-named':
        return _robot_named(f, recv)
    return False


# call sites of the merge helpers: (function, dst role)
HELPER_SITES = {
    I + '.merge_integration_branches': 'destination',
    I + '.update_integration_branches.<locals>.update': 'integration',
    I + '.update_integration_branches': 'integration',
    Q + '.add_to_queue': 'queue',
    GU + '.robust_merge': 'temporary',
}


def run(prog, an, rep):
    rep.explain(
        'C01: WMC (who merges into / creates destination branches), ARG '
        '(each target merge has the previous target among its sources; '
        'queue merges chain through the previous queue-integration '
        'branch), path-sensitive forward dataflow on the three merge '
        'helpers (both sources merged since the last reset on every normal '
        'path), MPT (validation dominates publication; cascade validated '
        'with the new branch before create_branch pushes; '
        'BranchCascade.validate keeps both inclusion tests).')
    rep.assume('git: a merge commit contains both parents; conflicts, '
               'version ordering (C09) and concrete histories are not '
               'decided')
    rep.run_rules(prog, an, [merge_sites, helper_sites, create_sites,
                             direct_merge_shape, queue_merge_shape,
                             helpers_merge_both, validation_gates,
                             cascade_validate])


def merge_sites(prog, an, rep):
    R = 'C01.WMC.merge-sites'
    n = 0
    per_func = {}
    for f in prog.all_funcs():
        if f.module.name == 'bert_e.git_host.mock' or f.qname in HELPERS:
            continue
        for call in prog.calls_in(f):
            if not (isinstance(call.func, ast.Attribute) and
                    call.func.attr == 'merge'):
                continue
            tg = an.call_targets(f, call)
            if GIT + '.Branch.merge' not in tg:
                continue
            n += 1
            rep.evaluated()
            recv = src(call.func.value)
            want = MERGE_SITES.get(f.qname)
            per_func[f.qname] = per_func.get(f.qname, 0) + 1
            rep.check(want is not None and _role_ok(an, f, want[0], call) and
                      per_func[f.qname] <= want[2], R,
                      '%s: %s.merge(...)' % (f.qname, recv), f.where(call),
                      'a branch is merged into (%s) at a call site that is '
                      'not one of the four known merge sites: destination '
                      'branches may receive content outside the cascade '
                      'order' % recv, detail=(want or ('', ''))[1])
    rep.floor('C01 direct merge call sites', n, 4)


def helper_sites(prog, an, rep):
    R = 'C01.WMC.helper-sites'
    n = 0
    for f in prog.all_funcs():
        if f.module.name == 'bert_e.git_host.mock':
            continue
        for call in prog.calls_in(f):
            cal = prog.callee(f, call)
            if cal[0] == 'func' and cal[1] in HELPERS:
                n += 1
                rep.evaluated()
                rep.check(f.qname in HELPER_SITES, R,
                          '%s calls %s' % (f.qname,
                                           cal[1].rpartition('.')[2]),
                          f.where(call), 'a merge helper is called from %s, '
                          'which is not one of the known merge sites' %
                          f.qname, detail=HELPER_SITES.get(f.qname))
    rep.floor('C01 merge helper call sites', n, 8)


def create_sites(prog, an, rep):
    """Branch.create on something that may be a destination branch only in
    create_branch."""
    R = 'C01.WMC.create-sites'
    # function -> (role of the receiver, max number of sites)
    allowed = {
        I + '.create_integration_branches': ('robot-named', 1),   # w/
        I + '.check_conflict': ('robot-named', 1),
        Q + '.get_queue_branch': ('robot-named', 1),
        Q + '.add_to_queue': ('robot-named', 2),
        GU + '.robust_merge': ('robot-named', 2),                 # tmp/
        'bert_e.jobs.create_branch.create_branch': ('requested', 1),
    }
    per_func = {}
    n = 0
    for f in prog.all_funcs():
        if f.module.name.startswith('bert_e.git_host'):
            continue
        for call in prog.calls_in(f):
            if not (isinstance(call.func, ast.Attribute) and
                    call.func.attr == 'create'):
                continue
            if GIT + '.Branch.create' not in an.call_targets(f, call):
                continue
            n += 1
            rep.evaluated()
            recv = src(call.func.value)
            per_func[f.qname] = per_func.get(f.qname, 0) + 1
            ok = f.qname in allowed and \
                per_func[f.qname] <= allowed[f.qname][1]
            if ok and allowed[f.qname][0] == 'robot-named':
                ok = _robot_named(f, call.func.value)
            elif ok:
                ok = canon(f, call.func.value).endswith(
                    'job.settings.branch)')
            rep.check(ok, R, '%s: %s.create(...)' % (f.qname, recv),
                      f.where(call), 'a branch is created at an unknown '
                      'site: a destination branch could be (re)created '
                      'outside the create-branch job')
    rep.floor('C01 Branch.create call sites', n, 7)


def _helper_call(an, f, loop):
    """Helper calls inside loop body: [(call, (dst, src1, src2))]."""
    out = []
    for x in ast.walk(loop):
        if isinstance(x, ast.Call):
            cal = an.prog.callee(f, x)
            if cal[0] == 'func' and cal[1] in HELPERS and len(x.args) == 3:
                out.append((x, tuple(src(a) for a in x.args)))
    return out


def direct_merge_shape(prog, an, rep):
    R = 'C01.ARG.direct-merge'
    f = need_func(an, I + '.merge_integration_branches')
    c = an.cfg(f)
    loops = [n for n in walk_local(f.node, include_root=False)
             if isinstance(n, ast.For) and _helper_call(an, f, n)]
    if len(loops) != 1:
        rep.violation(R, f.qname + ': merge loop', f.where(),
                      'no single loop merging the later targets (found %d)' %
                      len(loops))
        return
    loop = loops[0]
    lv = loop.target.id if isinstance(loop.target, ast.Name) else None
    paired = None     # for prev, w in zip([first] + rest, rest)
    if isinstance(loop.target, ast.Tuple) and len(loop.target.elts) == 2 \
            and all(isinstance(e, ast.Name) for e in loop.target.elts) and \
            isinstance(loop.iter, ast.Call) and \
            src(loop.iter.func) == 'zip' and len(loop.iter.args) == 2:
        paired = loop.target.elts[0].id
        lv = loop.target.elts[1].id
    if lv is None:
        rep.violation(R, f.qname + ': merge loop', f.where(loop),
                      'the merge loop does not range over the integration '
                      'branches one by one: %s' % src(loop.target))
        return
    # what the loop ranges over: the rest of wbranches
    first = rest = None
    for a, r, lst in first_rest(f):
        if src(lst) == f.params[1] and r is not None:
            first, rest = a, r
    ok_iter = first is not None and src(loop.iter) == rest
    if paired is not None and first is not None:
        # every branch paired with its predecessor: [first] + rest, rest
        a0, a1 = (' '.join(src(a).split()) for a in loop.iter.args)
        ok_iter = a1 == rest and a0 in ('[%s] + %s' % (first, rest),
                                        '[%s, *%s]' % (first, rest),
                                        f.params[1])
    rep.check(ok_iter, R,
              f.qname + ': first target, then every other target in order',
              f.where(loop), 'the merge loop iterates %s (expected the '
              'remainder of wbranches after the first)' % src(loop.iter))
    if first is None:
        return
    # first.dst_branch.merge(first) before the loop
    pre = [x for x in prog.calls_in(f)
           if isinstance(x.func, ast.Attribute) and x.func.attr == 'merge'
           and before(f, x, loop)]
    ok = len(pre) == 1 and src(pre[0].func.value) == first + '.dst_branch' \
        and [src(a) for a in pre[0].args] == [first]
    rep.evaluated()
    rep.check(ok, R, f.qname + ': first target receives its integration '
              'branch', f.where(), 'before the loop: %s' % [src(x)
                                                            for x in pre])
    # prev = first before the loop, prev = wbranch in every iteration
    calls = _helper_call(an, f, loop)
    prev = None
    for call, (dst, s1, s2) in calls:
        rep.evaluated()
        srcs = {s1, s2}
        ok = dst == lv + '.dst_branch' and lv in srcs and \
            len(srcs) == 2
        other = (srcs - {lv}).pop() if len(srcs) == 2 and lv in srcs \
            else None
        pv = other.rpartition('.dst_branch')[0] if other and \
            other.endswith('.dst_branch') else None
        rep.check(ok and pv is not None, R, f.qname + ': target n+1 <- '
                  '{target n, integration branch n+1}', f.where(call),
                  'merge into %s of %s: the previous target branch is not '
                  'among the sources (inclusion breaks at the first '
                  'multi-target merge)' % (dst, sorted(srcs)),
                  detail='%s <- %s' % (dst, sorted(srcs)))
        if pv is not None:
            prev = pv if prev in (None, pv) else '?'
    rep.evaluated()
    rep.check(prev != '?', R, f.qname + ': both merge strategies use the '
              'same previous target', f.where(loop), 'the octopus and the '
              'consecutive strategy merge different "previous" targets (%s): '
              'one of them does not chain the cascade' %
              sorted({s_ for _, (d_, a_, b_) in calls for s_ in (a_, b_)
                      if s_.endswith('.dst_branch')}))
    if paired is not None:
        rep.evaluated()
        rep.check(prev == paired, R, f.qname + ': the previous target is '
                  'the branch paired with this one', f.where(loop),
                  'merges use %s, the loop pairs with %s' % (prev, paired))
    elif prev and prev != '?':
        binds = stores_to(f, prev)
        init = [v for st, v in binds if before(f, st, loop)]
        inloop = [(st, v) for st, v in binds
                  if inside(loop, st)]
        rep.evaluated()
        rep.check(len(init) == 1 and init[0] is not None and
                  src(init[0]) == first, R, f.qname + ': prev starts at '
                  'the first target', f.where(), '%s is initialised to %s' %
                  (prev, [src(v) for v in init if v is not None]))
        ok = len(inloop) == 1 and inloop[0][1] is not None and \
            src(inloop[0][1]) == lv
        path = None
        if ok:
            head = c.stmt_node[id(loop)]
            tb = [s for s in c.succ[head] if c.nodes[s].kind == 'true']
            done = c.done_node[id(inloop[0][0])]
            for s0 in tb:
                p_ = c.path(s0, head, removed={done}, use_exc=False)
                if p_ is not None:
                    ok, path = False, p_
            # the re-binding comes after the merge of this iteration
            for call, _ in calls:
                ok = ok and before(f, call, inloop[0][0])
        rep.evaluated()
        rep.check(ok, R, f.qname + ': prev advances to the target just '
                  'merged, in every iteration', f.where(loop),
                  '%s is not re-bound to the loop branch on every path '
                  'through the loop (a later target would merge a stale '
                  'previous target)' % prev, path=c.describe_path(path))
    # both strategies present the same shape
    rep.check(len(calls) in (1, 2), R, f.qname + ': one helper call per '
              'strategy', f.where(loop), '%d helper calls in the loop' %
              len(calls))


def queue_merge_shape(prog, an, rep):
    R = 'C01.ARG.queue-merge'
    f = need_func(an, Q + '.add_to_queue')
    c = an.cfg(f)
    loops = [n for n in walk_local(f.node, include_root=False)
             if isinstance(n, ast.For) and _helper_call(an, f, n)]
    if len(loops) != 1:
        rep.violation(R, f.qname + ': queue loop', f.where(), 'no single '
                      'loop merging the later queues (found %d)' %
                      len(loops))
        return
    loop = loops[0]
    it = loop.iter
    ok = isinstance(it, ast.Call) and src(it.func) == 'zip' and \
        len(it.args) == 2 and isinstance(loop.target, ast.Tuple) and \
        len(loop.target.elts) == 2
    rep.check(ok, R, f.qname + ': queues paired with integration branches',
              f.where(loop), 'loop is %s' % src(loop)[:80])
    if not ok:
        return
    qv, wv = (e.id for e in loop.target.elts)
    qrest, wrest = (src(a) for a in it.args)
    # `first_q, *qrest = QL` and `first_w, *wrest = WL`: the loop ranges
    # over what is left after the first pair (the names may be shadowed or
    # not); QL = [get_queue_branch(job, w.dst_branch) for w in WL]
    first_q = first_w = qfull = wfull = None
    for a, rest, lst in first_rest(f):
        if rest == qrest:
            first_q, qfull = a, lst
        elif rest == wrest:
            first_w, wfull = a, lst
    rep.evaluated()
    ok = qfull is not None and _queue_list(an, f, qfull) and \
        wfull is not None and src(wfull) == f.params[1]
    rep.check(ok, R, f.qname + ': queue n is the queue of the destination '
              'of integration branch n', f.where(), 'queue branches are '
              'taken from %s, integration branches from %s' % (
                  src(qfull) if qfull is not None else '?',
                  src(wfull) if wfull is not None else '?'))
    calls = _helper_call(an, f, loop)
    qint = None
    for call, (dst, s1, s2) in calls:
        rep.evaluated()
        srcs = {s1, s2}
        ok = dst == qv and wv in srcs and len(srcs) == 2
        other = (srcs - {wv}).pop() if ok else None
        rep.check(ok, R, f.qname + ': queue n+1 <- {integration branch '
                  'n+1, queue-integration branch n}', f.where(call),
                  'merge into %s of %s' % (dst, sorted(srcs)),
                  detail='%s <- %s' % (dst, sorted(srcs)))
        if other:
            qint = other if qint in (None, other) else '?'
    rep.evaluated()
    rep.check(qint != '?', R, f.qname + ': both merge strategies use the '
              'same previous queue-integration branch', f.where(loop),
              'the two strategies merge different previous branches')
    if not qint or qint == '?':
        return
    # qint = get_queue_integration_branch(...); qint.create(<queue just
    # merged>, do_push=False): before the loop from the first queue, and at
    # the end of every iteration from the queue of this iteration
    binds = stores_to(f, qint)
    creates = [x for x in prog.calls_in(f)
               if isinstance(x.func, ast.Attribute) and
               x.func.attr == 'create' and src(x.func.value) == qint]
    pre_b = [(st, v) for st, v in binds if before(f, st, loop)]
    in_b = [(st, v) for st, v in binds if inside(loop, st)]
    pre_c = [x for x in creates if before(f, x, loop)]
    in_c = [x for x in creates if inside(loop, x)]
    giq = Spec.func(Q + '.get_queue_integration_branch')
    rep.evaluated()
    ok = len(pre_b) == 1 and isinstance(pre_b[0][1], ast.Call) and \
        an.call_matches(f, pre_b[0][1], giq) and len(pre_c) == 1 and \
        pre_c[0].args and src(pre_c[0].args[0]) == first_q
    rep.check(ok, R, f.qname + ': first queue-integration branch is cut '
              'from the first queue after its merge', f.where(),
              'before the loop %s is bound by %s and created from %s' % (
                  qint, [src(v) for _, v in pre_b if v is not None],
                  [src(x.args[0]) for x in pre_c if x.args]))
    ok = len(in_b) == 1 and isinstance(in_b[0][1], ast.Call) and \
        an.call_matches(f, in_b[0][1], giq) and len(in_c) == 1 and \
        in_c[0].args and src(in_c[0].args[0]) == qv and \
        all(before(f, call, in_b[0][0]) for call, _ in calls) and \
        before(f, in_b[0][0], in_c[0])
    path = None
    if ok:
        head = c.stmt_node[id(loop)]
        tb = [s for s in c.succ[head] if c.nodes[s].kind == 'true']
        cn = [n for n in c.nodes.values() if n.kind == 'done' and any(
            x is in_c[0] for x in ast.walk(n.ast))]
        for s0 in tb:
            p_ = c.path(s0, head, removed={n.id for n in cn}, use_exc=False)
            if p_ is not None:
                ok, path = False, p_
    rep.evaluated()
    rep.check(ok, R, f.qname + ': every iteration re-cuts the '
              'queue-integration branch from the queue just merged',
              f.where(loop), 'the queue-integration branch used by the '
              'next version is not refreshed from this version\'s queue on '
              'every path (q/<v+1> would not contain q/<v>)',
              path=c.describe_path(path))
    # first queue receives first integration branch
    first_merge = [x for x in prog.calls_in(f)
                   if isinstance(x.func, ast.Attribute) and
                   x.func.attr == 'merge' and before(f, x, loop)]
    ok = len(first_merge) == 1 and \
        src(first_merge[0].func.value) == first_q and \
        [src(a) for a in first_merge[0].args] == [first_w] and \
        pre_c and before(f, first_merge[0], pre_c[0])
    rep.check(bool(ok), R, f.qname + ': first queue <- first integration '
              'branch, before the queue-integration branch is cut',
              f.where(), 'first queue merge is %s' % [src(x)
                                                      for x in first_merge])


# ------------------------------------------------- helpers merge both sides
def _merged_state_walk(an, f, dst, srcs, summaries):
    """Path-sensitive forward exploration of f's CFG.  State: frozenset of
    (branch var, source var) facts 'branch contains source', plus known
    None-ness of locals.  Returns (ok, offending path description)."""
    c = an.cfg(f)
    start = (c.entry, frozenset(), frozenset())
    seen = set()
    stack = [(start, [c.entry])]
    bad = None
    n_paths = 0
    while stack:
        (i, facts, nulls), trail = stack.pop()
        if (i, facts, nulls) in seen:
            continue
        seen.add((i, facts, nulls))
        n = c.nodes[i]
        if i == c.exit:
            n_paths += 1
            have = {s for (b, s) in facts if b == dst}
            if not set(srcs) <= have:
                bad = (trail, sorted(set(srcs) - have))
                break
            continue
        if i == c.raise_exit:
            continue
        nfacts, nnulls = facts, nulls
        succs = [s for s in c.succ[i]]
        if n.kind == 'test':
            env = {}
            for (v, isnone) in nulls:
                # isnone: True (is None) / False (some object) /
                # 'T' / 'F' (the constants True / False)
                env[v] = None if isnone is True else \
                    True if isnone == 'T' else \
                    False if isnone == 'F' else _NOTNONE
            val = _eval_none(n.ast, env)
            if val is not None:
                succs = c.branch(n, val)
            else:
                succs = [s for s in c.succ[i] if (i, s) not in c.exc_edges]
        elif n.kind == 'handler' and n.ast.name:
            nnulls = frozenset({x for x in nulls if x[0] != n.ast.name} |
                               {(n.ast.name, False)})
        elif n.kind == 'done':
            st = n.ast
            nfacts, nnulls = _transfer(an, f, st, facts, nulls, summaries)
        for s in succs:
            if n.kind == 'stmt' and (i, s) in c.exc_edges:
                # exception before the statement completed: no effect
                stack.append(((s, facts, nulls), trail + [s]))
            else:
                stack.append(((s, nfacts, nnulls), trail + [s]))
    return bad, n_paths


class _NN:
    pass


_NOTNONE = _NN()


def _eval_none(e, env):
    """Decide `X is None` / `X is not None` / `X` truthiness when X's
    None-ness is known; None if undecided."""
    if isinstance(e, ast.Compare) and len(e.ops) == 1 and \
            isinstance(e.left, ast.Name) and e.left.id in env and \
            isinstance(e.comparators[0], ast.Constant) and \
            e.comparators[0].value is None:
        isnone = env[e.left.id] is None
        if isinstance(e.ops[0], ast.Is):
            return isnone
        if isinstance(e.ops[0], ast.IsNot):
            return not isnone
    if isinstance(e, ast.Name) and e.id in env:
        if env[e.id] is None or env[e.id] is False:
            return False
        if env[e.id] is True:
            return True
    return None


def _transfer(an, f, st, facts, nulls, summaries):
    facts = set(facts)
    nulls = set(nulls)
    for x in walk_local(st):
        if not isinstance(x, ast.Call):
            continue
        if isinstance(x.func, ast.Attribute) and \
                isinstance(x.func.value, ast.Name):
            b = x.func.value.id
            if x.func.attr == 'merge':
                for a in x.args:
                    if isinstance(a, ast.Name):
                        facts.add((b, a.id))
                        # transitivity: b now contains what a contains
                        for (bb, s) in list(facts):
                            if bb == a.id:
                                facts.add((b, s))
            elif x.func.attr == 'reset':
                facts = {(bb, s) for (bb, s) in facts if bb != b}
            elif x.func.attr == 'create' and x.args and \
                    isinstance(x.args[0], ast.Name):
                facts = {(bb, s) for (bb, s) in facts if bb != b}
                for (bb, s) in list(facts):
                    if bb == x.args[0].id:
                        facts.add((b, s))
        cal = an.prog.callee(f, x)
        if cal[0] == 'func' and cal[1] in summaries and len(x.args) == 3 \
                and all(isinstance(a, ast.Name) for a in x.args):
            if summaries[cal[1]]:
                d, s1, s2 = (a.id for a in x.args)
                facts.add((d, s1))
                facts.add((d, s2))
    if isinstance(st, ast.Assign) and len(st.targets) == 1 and \
            isinstance(st.targets[0], ast.Name):
        v = st.targets[0].id
        nulls = {x for x in nulls if x[0] != v}
        # re-binding a branch variable: v now names what the value names
        facts = {(bb, s_) for (bb, s_) in facts if bb != v}
        if isinstance(st.value, ast.Name):
            facts |= {(v, s_) for (bb, s_) in facts if bb == st.value.id}
        if isinstance(st.value, ast.Constant) and st.value.value is None:
            nulls.add((v, True))
        elif isinstance(st.value, (ast.Name, ast.Call, ast.Constant)):
            if isinstance(st.value, ast.Name):
                known = [x for x in nulls if x[0] == st.value.id]
                if known:
                    nulls.add((v, known[0][1]))
            elif isinstance(st.value, ast.Constant):
                nulls.add((v, 'T' if st.value.value is True else
                           'F' if st.value.value is False else False))
    return frozenset(facts), frozenset(nulls)


def helpers_merge_both(prog, an, rep):
    R = 'C01.DFA.helper-merges-both'
    summaries = {}
    for q in (GU + '.consecutive_merge', GU + '.octopus_merge',
              GU + '.robust_merge'):
        f = need_func(an, q)
        if len(f.params) != 3:
            raise AnalysisError('%s: expected (dst, src1, src2)' % q)
        dst, s1, s2 = f.params
        bad, n_paths = _merged_state_walk(an, f, dst, (s1, s2), summaries)
        summaries[q] = bad is None
        rep.evaluated(max(n_paths, 1))
        c = an.cfg(f)
        rep.check(bad is None and n_paths > 0, R, '%s: on every normal '
                  'path dst has received src1 and src2 since its last '
                  'reset (%d paths)' % (q, n_paths), f.where(),
                  '%s can return normally with dst missing %s' % (
                      f.name, bad[1] if bad else '?'),
                  path=c.describe_path(bad[0]) if bad else None)


def validation_gates(prog, an, rep):
    R = 'C01.MPT.validation'
    f = need_func(an, Q + '.handle_merge_queues')
    # the collection: the local bound to build_queue_collection(job)
    qv = None
    for st in walk_local(f.node, include_root=False):
        if isinstance(st, ast.Assign) and len(st.targets) == 1 and \
                isinstance(st.targets[0], ast.Name) and \
                isinstance(st.value, ast.Call) and an.call_matches(
                    f, st.value, Spec.func(BR + '.build_queue_collection')):
            qv = st.targets[0].id
    if qv is None:
        raise AnalysisError('anchor-missing build_queue_collection(...) in '
                            + f.qname)
    mpt(an, rep, R, f, Spec.func(Q + '.merge_queues'),
        [Spec.method('validate', r'^%s$' % qv)], depth=0,
        why='queues are validated before destinations are fast-forwarded')
    for call in an.direct_calls(f, Spec.func(Q + '.merge_queues')):
        rep.check(len(call.args) == 1 and
                  canon(f, call.args[0], paths_only=True) ==
                  qv + '.mergeable_queues',
                  'C01.ARG.validation', f.qname + ': merge_queues consumes '
                  'queues.mergeable_queues', f.where(call),
                  'merge_queues is given %s' % [src(a) for a in call.args])
    # queues is the collection built and validated here
    qb = [v for _, v in stores_to(f, qv) if v is not None]
    rep.check(len(qb) == 1 and isinstance(qb[0], ast.Call) and
              an.call_matches(f, qb[0], Spec.func(
                  BR + '.build_queue_collection')), 'C01.ARG.validation',
              f.qname + ': queues = build_queue_collection(job)', f.where(),
              'queues is bound as %s' % [src(v) for v in qb])
    # _process refuses un-validated collections first
    p_ = need_func(an, BR + '.QueueCollection._process')
    c = an.cfg(p_)
    val_true = an.branch_nodes(p_, lambda e: src(e) == 'self._validated',
                               True)
    val_false = an.branch_nodes(p_, lambda e: src(e) == 'self._validated',
                                False)
    others = [n for n in c.nodes.values() if n.kind == 'stmt' and
              isinstance(n.ast, (ast.Assign, ast.Expr, ast.AugAssign)) and
              not (isinstance(n.ast, ast.Expr) and
                   isinstance(n.ast.value, ast.Constant))]
    ok_all = bool(val_true)
    path = None
    for n in others:
        ok, pth = c.must_pass(val_true, n.id)
        if not ok and c.is_reachable(n.id):
            ok_all, path = False, pth
    rep.evaluated()
    rep.check(ok_all, R, p_.qname + ': nothing is computed on an '
              'un-validated collection', p_.where(), '_process works on a '
              'collection that was not validated',
              path=c.describe_path(path))
    for b in val_false:
        first = _first_exit(an, p_, c, b)
        rep.check(first is not None and first[0] == 'raise' and
                  (first[1] or '').endswith('.QueuesNotValidated'), R,
                  p_.qname + ': un-validated -> QueuesNotValidated',
                  p_.where(), 'un-validated collection leads to %s' %
                  (first,))
    # validate sets the flag only on success; _add_branch clears it
    v = need_func(an, BR + '.QueueCollection.validate')
    cv = an.cfg(v)
    sets = [n for n in cv.nodes.values() if n.kind == 'stmt' and
            isinstance(n.ast, ast.Assign) and
            src(n.ast.targets[0]) == 'self._validated' and
            is_const(n.ast.value, True)]
    rep.floor('C01 _validated = True sites', len(sets), 1)
    errs_raise = [n for n in cv.nodes.values() if n.kind == 'raise_stmt']
    # the error accumulator: what IncoherentQueues is raised with
    acc = {src(x.args[0]) for r in errs_raise for x in ast.walk(r.ast)
           if isinstance(x, ast.Call) and
           src(x.func).endswith('IncoherentQueues') and x.args}
    err_test_false = an.branch_nodes(v, lambda e: isinstance(e, ast.Name)
                                     and e.id in acc, False, expand=None)
    empty = an.branch_nodes(v, lambda e: flow_canon(an, v, e) in (
        'self._queues', 'self._queues.keys()'), False, expand=None)
    for s_ in sets:
        rep.evaluated()
        ok, pth = cv.must_pass(err_test_false + empty, s_.id)
        rep.check(ok, R, v.qname + ': validated only with no error',
                  v.where(s_), 'the collection is marked validated although '
                  'errors were found', path=cv.describe_path(pth))
    ab = need_func(an, BR + '.QueueCollection._add_branch')
    clears = [n for n in walk_local(ab.node, include_root=False)
              if isinstance(n, ast.Assign) and
              src(n.targets[0]) == 'self._validated' and
              is_const(n.value, False)]
    rep.check(bool(clears), R, ab.qname + ': adding a branch invalidates',
              ab.where(), '_add_branch no longer clears _validated')
    # pull-request path: cascade validated before integration branches
    h = need_func(an, GWF + '._handle_pull_request')
    mpt(an, rep, R, h, Spec.func(I + '.create_integration_branches'),
        [Spec.method('validate', r'cascade$')], depth=0)
    # create_branch: cascade rebuilt WITH the new branch and validated
    # before the push
    cb = need_func(an, 'bert_e.jobs.create_branch.create_branch')
    ccb = an.cfg(cb)
    pushes = an.target_nodes(cb, Spec.func(GU + '.push'), depth=0)
    rep.floor('C01 pushes in create_branch', len(pushes), 1)
    # the branch being created: the local(s) built from the requested name
    nb = locals_bound_to(cb, pred=lambda t: t.startswith('branch_factory(')
                         and t.endswith(', %s.settings.branch)' %
                                        cb.params[0]))
    if not nb:
        raise AnalysisError('anchor-missing the new branch object in ' +
                            cb.qname)
    creates = an.gate_nodes(cb, Spec.method(
        'create', r'^(%s)$' % '|'.join(nb)), depth=0)
    for t in pushes:
        call = [x for x in ast.walk(t.ast) if isinstance(x, ast.Call) and
                an.call_matches(cb, x, Spec.func(GU + '.push'))][0]
        br = kw(call, 'branches') or (call.args[1] if len(call.args) > 1
                                      else None)
        rep.check(br is not None and src(br) in ['[%s]' % x for x in nb],
                  'C01.ARG.validation', cb.qname + ': pushes exactly the '
                  'new branch', cb.where(t), 'create_branch pushes %s' %
                  (src(br) if br is not None else 'everything'))
        # the validated cascade is the one built after the local create
        vals = [n for n in ccb.nodes.values() if n.kind == 'stmt' and
                isinstance(n.ast, ast.Expr) and
                isinstance(n.ast.value, ast.Call) and
                isinstance(n.ast.value.func, ast.Attribute) and
                n.ast.value.func.attr == 'validate']
        good = []
        for vn in vals:
            recv = vn.ast.value.func.value
            if not isinstance(recv, ast.Name):
                continue
            binds = [st for st, _ in stores_to(cb, recv.id)]
            builds = [n for n in ccb.nodes.values() if n.kind == 'stmt' and
                      isinstance(n.ast, ast.Expr) and
                      src(n.ast.value).startswith(recv.id + '.build(')]
            fresh = bool(binds) and bool(builds)
            for b in builds:
                ok1, _ = ccb.must_pass(creates, b.id)
                ok2, _ = ccb.must_pass(ccb.done_of(b), vn.id)
                fresh = fresh and ok1 and ok2
            if fresh:
                good += ccb.done_of(vn)
        rep.evaluated()
        ok, pth = ccb.must_pass(good, t.id)
        rep.check(ok and bool(good), R, cb.qname + ': a cascade built after '
                  'the local creation is validated before the push',
                  cb.where(t), 'the new destination branch is pushed '
                  'without validating the cascade that includes it',
                  path=ccb.describe_path(pth))
    # a validation failure becomes JobFailure (nothing pushed)
    hs = [n for n in ccb.nodes.values() if n.kind == 'handler']
    okh = False
    for hn in hs:
        q = prog.resolve_expr(cb.module, hn.ast.type, cb) \
            if hn.ast.type is not None else None
        if q and q.endswith('.BertE_Exception'):
            first = _first_exit(an, cb, ccb, hn.id)
            okh = first is not None and first[0] == 'raise' and \
                (first[1] or '').endswith('.JobFailure')
    rep.check(okh, R, cb.qname + ': a cascade error refuses the job',
              cb.where(), 'cascade validation errors are not converted to '
              'JobFailure')


def cascade_validate(prog, an, rep):
    R = 'C01.MPT.cascade-validate'
    f = need_func(an, BR + '.BranchCascade.validate')
    c = an.cfg(f)
    tests = [t for t in an.test_nodes(
        f, lambda e: isinstance(e, ast.Call) and
        isinstance(e.func, ast.Attribute) and
        e.func.attr == 'includes_commit')]
    def role(e):
        t_ = canon(f, e)
        for k in ('DevelopmentBranch', 'StabilizationBranch'):
            if t_.endswith('[%s]' % k):
                return k
        return 'previous' if isinstance(e, ast.Name) else t_
    shapes = sorted((role(t.matched.func.value), role(t.matched.args[0]))
                    for t in tests)
    want = sorted([('DevelopmentBranch', 'StabilizationBranch'),
                   ('DevelopmentBranch', 'previous')])
    prev_names = {src(t.matched.args[0]) for t in tests
                  if role(t.matched.args[0]) == 'previous'}
    rep.evaluated()
    rep.check(shapes == want and len(prev_names) == 1, R, f.qname + ': stabilization in development '
              'and previous development in development', f.where(),
              'inclusion tests are %s' % shapes, detail=str(shapes))
    for t in tests:
        for b in c.branch(t, False):
            first = _first_exit(an, f, c, b)
            rep.check(first is not None and first[0] == 'raise' and
                      (first[1] or '').endswith(
                          '.DevBranchesNotSelfContained'), R,
                      f.qname + ': missing inclusion (%s in %s) raises' % (
                          src(t.matched.args[0]), src(t.matched.func.value)),
                      f.where(t), 'a missing inclusion leads to %s' %
                      (first,))
    # previous_dev_branch re-bound on every iteration that does not continue
    loops = [n for n in walk_local(f.node, include_root=False)
             if isinstance(n, ast.For)]
    if len(loops) != 1:
        raise AnalysisError('BranchCascade.validate: expected one loop')
    loop = loops[0]
    head = c.stmt_node[id(loop)]
    prev = next(iter(prev_names)) if len(prev_names) == 1 else None
    binds = [st for st, v in (stores_to(f, prev) if prev else [])
             if inside(loop, st) and
             v is not None and canon(f, v).endswith('[DevelopmentBranch]')]
    conts = [n.id for n in c.nodes.values() if n.kind == 'continue']
    tb = [s for s in c.succ[head] if c.nodes[s].kind == 'true']
    ok = bool(binds)
    path = None
    done = {c.done_node[id(st)] for st in binds if id(st) in c.done_node}
    for s0 in tb:
        p_ = c.path(s0, head, removed=done | set(conts), use_exc=False)
        if p_ is not None:
            ok, path = False, p_
    rep.evaluated()
    rep.check(ok, R, f.qname + ': previous_dev_branch advances every '
              'iteration', f.where(loop), 'previous_dev_branch is not '
              'updated on every path: consecutive development branches are '
              'not all compared', path=c.describe_path(path))
    # the tests are reached for every (dev, previous) pair: the inclusion
    # test on previous_dev_branch is guarded only by its truthiness
    it = src(loop.iter)
    rep.check(it == 'self._cascade.items()', R, f.qname + ': iterates the '
              'whole cascade in order', f.where(loop), 'loop iterates %s' %
              it)
