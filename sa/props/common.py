"""Rule instances shared by several properties."""
import ast
import re

from ..program import AnalysisError, walk_local, dotted
from ..analysis import Spec, src, const_value, class_const
from ..rules import (cond_branches, GWF, EXC, mpt, need_func, stores_to, norm_bool,
                     chained_assign_value, strip_wrappers)

BYPASS_HELPERS = ('bypass_incompatible_branch', 'bypass_peer_approval',
                  'bypass_leader_approval', 'bypass_author_approval',
                  'bypass_build_status', 'bypass_jira_check')


def _falsy(node):
    return node is None or (isinstance(node, ast.Constant) and
                            not node.value)


def bypass_helper(prog, an, rep, name, pid):
    """SIB: helper bypass_X == job.settings.bypass_X or
    job.author_bypass.get('bypass_X', <falsy>), nothing more, nothing less."""
    R = pid + '.SIB.bypass-helper'
    f = prog.func(GWF + '.utils.' + name, required=False)
    rep.evaluated()
    if f is None:
        rep.violation(R, name, 'bert_e/workflow/gitwaterflow/utils.py',
                      'bypass helper %s no longer exists' % name)
        return
    rets = [n for n in walk_local(f.node, include_root=False)
            if isinstance(n, ast.Return)]
    if len(rets) != 1 or rets[0].value is None:
        rep.violation(R, name, f.where(), 'helper %s is no longer a single '
                      'return expression' % name)
        return
    e = rets[0].value
    atoms = e.values if isinstance(e, ast.BoolOp) and \
        isinstance(e.op, ast.Or) else [e]
    job = f.params[0] if f.params else 'job'
    seen = set()
    bad = []
    for a in atoms:
        # job.settings.NAME / job.settings['NAME'] / job.settings.get('NAME')
        d = dotted(a)
        if d == '%s.settings.%s' % (job, name):
            seen.add('comment')
            continue
        if isinstance(a, ast.Subscript) and \
                dotted(a.value) == job + '.settings' and \
                isinstance(a.slice, ast.Constant) and a.slice.value == name:
            seen.add('comment')
            continue
        if isinstance(a, ast.Call) and isinstance(a.func, ast.Attribute) \
                and a.func.attr == 'get' and a.args and \
                isinstance(a.args[0], ast.Constant) and \
                a.args[0].value == name and \
                _falsy(a.args[1] if len(a.args) > 1 else None):
            recv = dotted(a.func.value)
            if recv == job + '.author_bypass':
                seen.add('author')
                continue
            if recv == job + '.settings':
                seen.add('comment')
                continue
        bad.append(src(a))
    ok = seen == {'comment', 'author'} and not bad and \
        (not isinstance(e, ast.BoolOp) or isinstance(e.op, ast.Or))
    rep.check(ok, R, name, f.where(),
              '%s must be exactly settings.%s OR author_bypass[%s]; found '
              'sources %s, foreign terms %s' % (name, name, name,
                                                sorted(seen), bad),
              detail=src(e))
    # the key is a per-author bypass and a registered privileged option
    bl = bypass_list(prog)
    rep.check(name in bl, R, name + ' in PrAuthorsOptions.BYPASS_LIST',
              'bert_e/settings.py', '%s missing from BYPASS_LIST: the '
              'per-author setting can never be granted' % name)


def bypass_list(prog):
    k = prog.cls('bert_e.settings.PrAuthorsOptions')
    return list(class_const(prog, k, 'BYPASS_LIST'))


def author_bypass_keyed_by_pr_author(prog, an, rep, pid):
    R = pid + '.ARG.author-bypass'
    k = prog.cls('bert_e.job.PullRequestJob')
    f = k.methods.get('author_bypass')
    rep.evaluated()
    if f is None:
        rep.violation(R, 'PullRequestJob.author_bypass', k.where(),
                      'author_bypass property removed')
        return
    rets = [n for n in walk_local(f.node, include_root=False)
            if isinstance(n, ast.Return) and n.value is not None]
    ok = False
    for r in rets:
        e = r.value
        if isinstance(e, ast.Call) and isinstance(e.func, ast.Attribute) \
                and e.func.attr == 'get' and \
                src(e.func.value).endswith('settings.pr_author_options') \
                and e.args and \
                src(e.args[0]) == 'self.pull_request.author' and \
                (len(e.args) < 2 or isinstance(e.args[1], ast.Dict) and
                 not e.args[1].keys):
            ok = True
    rep.check(ok and len(rets) == 1, R, 'PullRequestJob.author_bypass',
              f.where(), 'author_bypass must be settings.pr_author_options'
              '.get(self.pull_request.author, {}) (keyed by the PR author, '
              'empty default)', detail=src(rets[0].value) if rets else None)


def notify_only_under_template(prog, an, rep, pid):
    """MPT: in handle_pull_request, notify_user is reached only inside the
    `except TemplateException` arm (silent exceptions post no comment)."""
    R = pid + '.MPT.silent-exceptions'
    f = need_func(an, GWF + '.handle_pull_request')
    c = an.cfg(f)
    spec = Spec.func('bert_e.workflow.pr_utils.notify_user')
    targets = an.target_nodes(f, spec, depth=0)
    handlers = [n for n in c.nodes.values() if n.kind == 'handler']
    gates = []
    for h in handlers:
        t = h.ast.type
        names = [t] if not isinstance(t, ast.Tuple) else list(t.elts)
        qs = [prog.resolve_expr(f.module, x, f) for x in names if x]
        if qs and all(q and prog.is_subclass(q, EXC + '.TemplateException')
                      for q in qs):
            gates.append(h.id)
    rep.floor(pid + ' notify_user sites in handle_pull_request',
              len(targets), 1)
    for t in targets:
        rep.evaluated()
        ok, path = c.must_pass(gates, t.id)
        rep.check(ok, R, f.qname + ': notify_user only under except '
                  'TemplateException', f.where(t),
                  'notify_user is reachable outside the except '
                  'TemplateException arm: silent outcomes would comment',
                  path=c.describe_path(path))


def build_gate_dominates(prog, an, rep, pid):
    """check_build_status dominates queue entry and direct merge, on the
    same wbranches value."""
    f = need_func(an, GWF + '._handle_pull_request')
    gate = Spec.func(GWF + '.check_build_status')
    for tq in (GWF + '.queueing.add_to_queue',
               GWF + '.integration.merge_integration_branches'):
        mpt(an, rep, pid + '.MPT.build-gate', f, Spec.func(tq), [gate],
            depth=2)
    same_wbranches(prog, an, rep, pid, f,
                   [GWF + '.check_build_status',
                    GWF + '.queueing.add_to_queue',
                    GWF + '.integration.merge_integration_branches'])


def same_wbranches(prog, an, rep, pid, f, callee_qnames):
    R = pid + '.ARG.same-wbranches'
    names = {}
    for q in callee_qnames:
        for call in an.direct_calls(f, Spec.func(q)):
            a = call.args[1] if len(call.args) > 1 else None
            names[q.rpartition('.')[2]] = (a, call)
    if len(names) < len(callee_qnames):
        return   # calls moved into helpers: covered by MPT only
    rep.evaluated()
    ids = {src(a) for a, _ in names.values()}
    ok = len(ids) == 1 and all(isinstance(a, ast.Name)
                               for a, _ in names.values())
    var = next(iter(ids)) if ok else None
    where = f.where(next(iter(names.values()))[1])
    if ok:
        st = stores_to(f, var)
        val = st[0][1] if len(st) == 1 else None
        inner = strip_wrappers(val) if val is not None else None
        prod = isinstance(inner, ast.Call) and \
            an.call_matches(f, inner, Spec.func(
                GWF + '.integration.create_integration_branches'))
        ok = len(st) == 1 and prod
        rep.check(ok, R, f.qname + ': gates and merge see one wbranches '
                  'value', where,
                  '%s is re-bound (%d bindings) or not produced by '
                  'create_integration_branches: the gate may vet other '
                  'branches than those merged' % (var, len(st)),
                  detail='%s = %s' % (var, src(val) if val is not None
                                      else '?'))
    else:
        rep.violation(R, f.qname + ': gates and merge see one wbranches '
                      'value', where, 'the build/approval gate and the '
                      'queue/merge calls receive different arguments: %s' %
                      {k: src(a) for k, (a, _) in names.items()})


# ----------------------------------------------------------------- registry
def _bind(params, call, skip_first=True):
    ps = list(params)
    if skip_first and ps and ps[0] in ('self', 'cls'):
        ps = ps[1:]
    out = {}
    for p, a in zip(ps, call.args):
        out[p] = a
    for k in call.keywords:
        if k.arg:
            out[k.arg] = k.value
    return out


def _const_bool(node, default=False):
    if node is None:
        return default
    if isinstance(node, ast.Constant):
        return bool(node.value)
    raise AnalysisError('fold-failure: registry flag %s is not a literal' %
                        src(node))


def reactor_registry(prog, an):
    """Options and commands registered on the Reactor, read from the AST of
    every non-test module: Reactor.add_option(...) calls, @Reactor.option and
    @Reactor.command decorators.  Returns (options, commands): key ->
    dict(privileged, authored, default, handler, where)."""
    R = prog.cls('bert_e.reactor.Reactor')
    add_option = R.methods['add_option']
    add_command = R.methods['add_command']
    option_dec = R.methods['option']
    command_dec = R.methods['command']
    options, commands = {}, {}

    def is_reactor(expr, m, f=None):
        q = prog.resolve_expr(m, expr, f)
        return q == R.qname

    for f in prog.all_funcs():
        for call in prog.calls_in(f):
            fn = call.func
            if isinstance(fn, ast.Attribute) and \
                    is_reactor(fn.value, f.module, f):
                if fn.attr == 'add_option':
                    b = _bind(add_option.params, call)
                    key = const_value(b['key'])
                    options[key] = {
                        'privileged': _const_bool(b.get('privileged')),
                        'authored': _const_bool(b.get('authored')),
                        'default': b.get('default'),
                        'handler': None, 'where': f.where(call),
                        'registrar': f}
                elif fn.attr == 'add_command':
                    b = _bind(add_command.params, call)
                    key = const_value(b['key'])
                    commands[key] = {
                        'privileged': _const_bool(b.get('privileged')),
                        'authored': _const_bool(b.get('authored')),
                        'handler': None, 'where': f.where(call)}
    # registrations written at module level:
    # Reactor.add_command('reset', _reset, "...")
    from ..program import walk_local as _wl
    for m in prog.modules.values():
        for call in _wl(m.tree, include_root=False):
            if not isinstance(call, ast.Call):
                continue
            fn = call.func
            if not (isinstance(fn, ast.Attribute) and
                    fn.attr in ('add_option', 'add_command') and
                    is_reactor(fn.value, m)):
                continue
            meth = add_option if fn.attr == 'add_option' else add_command
            b = _bind(meth.params, call)
            key = const_value(b['key'])
            h = b.get('handler')
            hf = prog.funcs.get(prog.resolve_expr(m, h) or '') \
                if h is not None else None
            rec = {'privileged': _const_bool(b.get('privileged')),
                   'authored': _const_bool(b.get('authored')),
                   'handler': hf,
                   'where': '%s:%d' % (m.path, call.lineno)}
            if fn.attr == 'add_option':
                rec['default'] = b.get('default')
                options[key] = rec
            else:
                commands[key] = rec
    for f in prog.all_funcs():
        if f.parent is not None or f.cls is not None:
            continue
        for dec in f.decorators:
            target = dec.func if isinstance(dec, ast.Call) else dec
            if not (isinstance(target, ast.Attribute) and
                    is_reactor(target.value, f.module)):
                continue
            if target.attr == 'option':
                b = _bind(option_dec.params, dec) \
                    if isinstance(dec, ast.Call) else {}
                key = const_value(b['key']) if b.get('key') is not None \
                    else f.name
                options[key] = {
                    'privileged': _const_bool(b.get('privileged')),
                    'authored': _const_bool(b.get('authored')),
                    'default': b.get('default'), 'handler': f,
                    'where': f.where(dec)}
            elif target.attr == 'command':
                b = _bind(command_dec.params, dec) \
                    if isinstance(dec, ast.Call) else {}
                key = const_value(b['key']) if b.get('key') is not None \
                    else f.name
                commands[key] = {
                    'privileged': _const_bool(b.get('privileged')),
                    'authored': False, 'handler': f,
                    'where': f.where(dec)}
    return options, commands


# ------------------------------------------------------------------ effects
GIT = 'bert_e.lib.git'
LOCAL_CREATE = {GIT + '.Branch.create', GIT + '.Branch.merge'}
PUBLISH = {GIT + '.Repository.push', GIT + '.Repository.push_all'}
CLONE = {GIT + '.Repository.clone'}


def host_methods(prog, name):
    return {m.qname for m in prog.methods_named(name)
            if m.module.name.startswith('bert_e.git_host')}


def reaches(an, f, qnames, depth=12, want_path=False):
    """Does f (transitively, through resolved and by-name calls) reach one
    of the functions in qnames?  Breadth-first, hence deterministic and
    shortest; returns the first hit (or the call chain) or None."""
    from collections import deque
    prev = {f.qname: None}
    dq = deque([(f.qname, 0)])
    while dq:
        q, d = dq.popleft()
        if d > 0 and q in qnames:
            if not want_path:
                return q
            chain = []
            while q is not None:
                chain.append(q)
                q = prev[q]
            return list(reversed(chain))
        g = an.prog.funcs.get(q)
        if g is None or d >= depth:
            continue
        nxt = sorted(an.callees(g)) + sorted(nf.qname
                                             for nf in g.nested.values())
        for nq in nxt:
            if nq not in prev:
                prev[nq] = q
                dq.append((nq, d + 1))
    return None


def stmt_reaches(an, f, astnode, qnames):
    """Does a statement of f contain a call that is / reaches qnames?"""
    from ..cfg import local_nodes
    roots = [astnode]
    if isinstance(astnode, (ast.For, ast.AsyncFor)):
        roots = [astnode.iter]
    elif isinstance(astnode, (ast.With, ast.AsyncWith)):
        roots = [i.context_expr for i in astnode.items]
    elif isinstance(astnode, (ast.While, ast.If, ast.Try,
                              ast.ExceptHandler)):
        return None
    for r in roots:
        for n in local_nodes(r):
            if isinstance(n, ast.Call):
                for t in an.call_targets(f, n):
                    if t in qnames:
                        return t
                    g = an.prog.funcs.get(t)
                    if g is not None:
                        hit = reaches(an, g, qnames)
                        if hit:
                            return hit
    return None


def reset_before_dispatch(prog, an, rep, pid):
    """BertE.process resets the working clone before dispatching the job;
    Repository.reset makes a fresh directory and clears the remote caches."""
    R = pid + '.MPT.fresh-clone'
    f = need_func(an, 'bert_e.bert_e.BertE.process')
    mpt(an, rep, R, f, Spec.method('dispatch', r'^self$'),
        [Spec.method('reset', r'git_repo$')], depth=0,
        why='every job starts from a fresh working clone')
    g = need_func(an, 'bert_e.lib.git.Repository.reset')
    txt = {dotted(t): src(n.value)
           for n in walk_local(g.node, include_root=False)
           if isinstance(n, ast.Assign) for t in n.targets
           if dotted(t)}
    rep.evaluated()
    ok = txt.get('self.tmp_directory', '').startswith('mkdtemp(') and \
        'self._remote_heads' in txt and 'self._remote_branches' in txt and \
        'self.cmd_directory' in txt
    rep.check(ok, R, g.qname + ': new temporary directory, remote caches '
              'cleared', g.where(), 'Repository.reset assigns %s' %
              sorted(txt), detail=str(sorted(txt.items())))


# ------------------------------------------- call-site sensitive publishing
GUARDED_DEFAULTS = {'remove': False, 'merge': False, 'create': True}


def _branch_family(prog):
    return {k.qname for k in prog.subclasses(GIT + '.Branch')}


def do_push_at(call, method):
    """Constant value of the do_push argument at a call site of
    Branch.remove / create / merge; None if not a constant."""
    v = None
    for k in call.keywords:
        if k.arg == 'do_push':
            v = k.value
        if k.arg is None:
            return None      # **kwargs: unknown
    if v is None and method == 'create' and len(call.args) > 1:
        v = call.args[1]
    if v is None and method == 'remove' and len(call.args) > 2:
        v = call.args[2]
    if v is None:
        return GUARDED_DEFAULTS[method]
    if isinstance(v, ast.Constant):
        return bool(v.value)
    return None


def publishing_sites(an, f, depth=10, _seen=None):
    """Call sites through which f may update a remote ref:
    [(function, call, primitive)].  Branch.remove / create / merge publish
    only if do_push is (or may be) true at the call site; that they publish
    only under do_push is a separate rule (guarded_primitives)."""
    prog = an.prog
    fam = _branch_family(prog)
    out = []
    seen = _seen if _seen is not None else set()
    if f.qname in seen or depth < 0:
        return out
    seen.add(f.qname)
    units = [f] + list(f.nested.values())
    for u in units:
        for call in prog.calls_in(u):
            targets = an.call_targets(u, call)
            for t in sorted(targets):
                g = prog.funcs.get(t)
                if g is None:
                    continue
                if t in PUBLISH:
                    out.append((u, call, t))
                    continue
                if g.cls is not None and g.cls.qname in fam and \
                        g.name in GUARDED_DEFAULTS:
                    v = do_push_at(call, g.name)
                    if v is None and u.cls is not None and \
                            u.cls.qname in fam and u.name == g.name:
                        continue   # override forwarding its own do_push
                    if v is not False:
                        out.append((u, call, t + '(do_push)'))
                    continue
                out.extend(publishing_sites(an, g, depth - 1, seen))
        # function values handed to wrappers: retry.run(repo.push_all, ...)
        for call in prog.calls_in(u):
            for a in list(call.args) + [k.value for k in call.keywords]:
                if isinstance(a, ast.Attribute) and \
                        a.attr in ('push', 'push_all') and \
                        not isinstance(a.value, ast.Call):
                    for m in prog.methods_named(a.attr):
                        if m.qname in PUBLISH:
                            out.append((u, call, m.qname))
    return out


def guarded_primitives(prog, an, rep, pid):
    """In Branch.remove / create / merge the remote update is dominated by
    the true edge of the do_push test."""
    R = pid + '.MPT.do-push-guard'
    for name in ('remove', 'create', 'merge'):
        f = need_func(an, GIT + '.Branch.' + name)
        c = an.cfg(f)
        pushes = [n for n in c.nodes.values() if n.kind == 'stmt' and any(
            isinstance(x, ast.Call) and isinstance(x.func, ast.Attribute)
            and x.func.attr == 'push' for x in ast.walk(n.ast))]
        # the flag: the do_push parameter, or the local(s) that hold the
        # do_push keyword popped from **kwargs
        from ..rules import locals_bound_to
        kwv = f.node.args.kwarg.arg if f.node.args.kwarg else None
        flags = ['do_push'] if 'do_push' in f.params else (
            locals_bound_to(f, pred=lambda t: t in (
                "%s.pop('do_push', False)" % kwv,
                "%s.get('do_push', False)" % kwv)) if kwv else [])
        var = flags[0] if flags else 'do_push'
        gates = an.branch_nodes(
            f, lambda e: isinstance(e, ast.Name) and e.id in flags, True)
        rep.floor('%s push statements in Branch.%s' % (pid, name),
                  len(pushes), 1)
        for p_ in pushes:
            rep.evaluated()
            ok, path = c.must_pass(gates, p_.id)
            rep.check(ok and bool(gates), R, f.qname + ': remote update '
                      'only under do_push', f.where(p_),
                      'Branch.%s updates the remote even when do_push is '
                      'false' % name, path=c.describe_path(path))
        # do_push comes from the keyword / parameter, not from a constant
        st = stores_to(f, var)
        if name == 'merge':
            ok = len(st) == 1 and st[0][1] is not None and bool(flags)
            if 'do_push' in f.params and not st:
                # a parameter of its own (keyword-only, after *sources):
                # its default is what an absent keyword means
                a = f.node.args
                dflt = dict(zip([x.arg for x in a.kwonlyargs],
                                a.kw_defaults))
                pos = [x.arg for x in a.args]
                dflt.update(zip(pos[len(pos) - len(a.defaults):],
                                a.defaults))
                d = dflt.get('do_push')
                ok = isinstance(d, ast.Constant) and d.value is False
            rep.check(ok, pid + '.KWC.do-push-default', f.qname +
                      ': do_push defaults to False', f.where(),
                      'do_push of Branch.merge is bound as %s' %
                      [src(v) for _, v in st if v is not None])



def _own_list_membership(f, loop, comp, key, lst):
    """The comprehension maps `key` to `key in <the loop's own list>`: the
    container may go through locals and set()/list()/tuple() copies, as
    long as each of those locals is bound inside the loop (per author) and
    nowhere else."""
    from ..rules import substitute_locals, strip_wrappers, inside
    if isinstance(comp, ast.DictComp):
        k, v = comp.key, comp.value
    elif isinstance(comp.elt, ast.Tuple) and len(comp.elt.elts) == 2:
        k, v = comp.elt.elts
    else:
        return False
    if not (src(k) == key and isinstance(v, ast.Compare) and
            len(v.ops) == 1 and isinstance(v.ops[0], ast.In) and
            src(v.left) == key):
        return False
    e = v.comparators[0]
    for _ in range(6):
        e = strip_wrappers(e, names=('set', 'list', 'tuple', 'frozenset',
                                     'sorted'))
        if isinstance(e, ast.Name) and e.id != lst:
            binds = stores_to(f, e.id)
            if len(binds) != 1 or binds[0][1] is None or \
                    not inside(loop, binds[0][0]):
                return False
            e = binds[0][1]
        else:
            break
    return isinstance(e, ast.Name) and e.id == lst


def per_author_options(prog, an, rep, pid):
    """PrAuthorsOptions.deserialize grants each author exactly the bypasses
    listed for that author."""
    R = pid + '.ARG.per-author-options'
    k = prog.cls('bert_e.settings.PrAuthorsOptions')
    f = k.methods.get('deserialize')
    rep.evaluated()
    if f is None:
        rep.violation(R, 'PrAuthorsOptions.deserialize', k.where(),
                      'per-author options are no longer parsed')
        return
    loops = [n for n in walk_local(f.node, include_root=False)
             if isinstance(n, ast.For) and 'data.items()' in src(n.iter)]
    ok = False
    detail = None
    for lp in loops:
        if not (isinstance(lp.target, ast.Tuple) and
                len(lp.target.elts) == 2):
            continue
        user, lst = (src(e) for e in lp.target.elts)
        # the result: what the function returns, filled per author
        returned = {src(r.value) for r in walk_local(f.node,
                                                     include_root=False)
                    if isinstance(r, ast.Return) and r.value is not None}
        for st in walk_local(lp, include_root=False):
            if isinstance(st, ast.Assign) and \
                    isinstance(st.targets[0], ast.Subscript) and \
                    src(st.targets[0].value) in returned and \
                    src(st.targets[0].slice) == user:
                detail = src(st.value)
                comp = [x for x in ast.walk(st.value)
                        if isinstance(x, (ast.ListComp, ast.GeneratorExp,
                                          ast.DictComp))]
                for cmp_ in comp:
                    it = src(cmp_.generators[0].iter)
                    tgt = src(cmp_.generators[0].target)
                    body = src(cmp_.elt) if not isinstance(
                        cmp_, ast.DictComp) else '(%s, %s)' % (
                            src(cmp_.key), src(cmp_.value))
                    if it == 'self.BYPASS_LIST' and \
                            not cmp_.generators[0].ifs and \
                            _own_list_membership(f, lp, cmp_, tgt, lst):
                        ok = True
    rep.check(ok, R, f.qname + ': res[author] = {bypass: bypass in that '
              'author\'s own list}', f.where(), 'per-author bypasses are '
              'computed as %s: an author can inherit the bypasses listed '
              'for another one' % detail, detail=detail)
    # unknown names are rejected
    c = an.cfg(f)
    bad = cond_branches(an, f, re.compile(r'^.+ in self\.BYPASS_LIST$'),
                        False)
    okr = False
    from .c12 import _first_exit
    for b in bad:
        first = _first_exit(an, f, c, b)
        okr = first is not None and first[0] == 'raise'
    rep.check(okr, R, f.qname + ': an unknown bypass name is rejected',
              f.where(), 'unknown per-author bypass names are accepted')


def in_sync_pairs(prog, an, rep, pid):
    """check_in_sync answers "nothing moved since the w/ branches were
    built" and lets queue mode keep their tips (and the build statuses
    attached to them).  Every integration branch has to be compared with its
    predecessor, the first one with the source branch: leaving a pair out
    lets a new source commit go unmerged while the old green tips pass the
    build gate."""
    from ..rules import (substitute_locals, parent_map, inside,
                         iteration_outcomes, returns_under)
    R = pid + '.ARG.in-sync-pairs'
    f = need_func(an, GWF + '.check_in_sync')
    c = an.cfg(f)
    job, wbr = f.params[0], f.params[1]
    source = '%s.git.src_branch' % job
    tests = an.test_nodes(
        f, lambda e: isinstance(e, ast.Call) and
        isinstance(e.func, ast.Attribute) and
        e.func.attr == 'includes_commit', expand=None)
    if len(tests) != 1:
        raise AnalysisError('anchor-missing the includes_commit test of %s'
                            % f.qname)
    call = tests[0].matched
    pm = parent_map(f.node)
    loop = tests[0].ast
    while loop in pm and not isinstance(loop, ast.For):
        loop = pm[loop]
    if not isinstance(loop, ast.For):
        raise AnalysisError('anchor-missing the loop of %s' % f.qname)
    arg = call.args[0] if call.args else None
    ok = isinstance(arg, ast.Call) and isinstance(arg.func, ast.Attribute) \
        and arg.func.attr == 'get_latest_commit' and \
        isinstance(arg.func.value, ast.Name) and \
        isinstance(call.func.value, ast.Name)
    rep.evaluated()
    rep.check(ok, R, f.qname + ': <branch>.includes_commit(<previous>.'
              'get_latest_commit())', f.where(call), 'the test is %s' %
              src(call))
    if not ok:
        return
    B, P = call.func.value.id, arg.func.value.id

    def text(e):
        return src(substitute_locals(f, e))
    if isinstance(loop.target, ast.Name):
        rep.check(loop.target.id == B and text(loop.iter) == wbr, R,
                  f.qname + ': every integration branch is tested',
                  f.where(loop), 'the tested branch %s ranges over %s, not '
                  'over all of %s' % (B, text(loop.iter), wbr))
        stores = stores_to(f, P)
        first = [st for st, v in stores if not inside(loop, st)]
        step = [st for st, v in stores if inside(loop, st)]
        rep.check(len(first) == 1 and len(step) == 1 and
                  text(first[0].value) == source and
                  isinstance(step[0].value, ast.Name) and
                  step[0].value.id == B, R, f.qname + ': the predecessor '
                  'starts at the source branch and follows the loop',
                  f.where(loop), 'the predecessor %s is bound to %s' % (
                      P, [src(v) if v is not None else '?'
                          for _, v in stores]))
        if len(step) == 1:
            head = c.stmt_node[id(loop)]
            done = c.done_node.get(id(step[0]))
            skip = None
            for s0 in c.succ[head]:
                if c.nodes[s0].kind == 'true':
                    skip = skip or c.path(s0, head, removed={done},
                                          use_exc=False)
            rep.check(skip is None, R, f.qname + ': the predecessor is '
                      'advanced in every iteration', f.where(step[0]),
                      'an iteration can end without `%s = %s`' % (P, B),
                      path=c.describe_path(skip))
    elif isinstance(loop.target, ast.Tuple) and \
            [getattr(x, 'id', None) for x in loop.target.elts] == [P, B] \
            and isinstance(loop.iter, ast.Call) and \
            isinstance(loop.iter.func, ast.Name) and \
            loop.iter.func.id == 'zip' and len(loop.iter.args) == 2:
        # sequences as (leading single items, then all of wbranches?,
        # items dropped in front, items dropped at the end)
        def seq(e, depth=0):
            e = substitute_locals(f, e) if depth == 0 else e
            if isinstance(e, ast.Name) and e.id == wbr:
                return [(), True, 0, 0]
            if isinstance(e, ast.Call) and isinstance(e.func, ast.Name) and \
                    e.func.id in ('list', 'tuple') and len(e.args) == 1:
                return seq(e.args[0], depth + 1)
            if isinstance(e, ast.Call) and src(e.func).endswith('chain') \
                    and len(e.args) == 2:
                a, b = seq(e.args[0], depth + 1), seq(e.args[1], depth + 1)
                if a and b and not a[1] and a[2:] == [0, 0] and \
                        b[2:] == [0, 0]:
                    return [a[0] + b[0], b[1], 0, 0] if not b[0] or \
                        not a[1] else None
                return None
            if isinstance(e, (ast.List, ast.Tuple)):
                head, has = [], False
                for i, x in enumerate(e.elts):
                    if isinstance(x, ast.Starred) and i == len(e.elts) - 1 \
                            and src(x.value) == wbr:
                        has = True
                    elif isinstance(x, ast.Starred) or has:
                        return None
                    else:
                        head.append(src(x))
                return [tuple(head), has, 0, 0]
            if isinstance(e, ast.BinOp) and isinstance(e.op, ast.Add):
                a, b = seq(e.left, depth + 1), seq(e.right, depth + 1)
                if a and b and not a[1] and a[2:] == [0, 0] and \
                        b[2] == 0 and not b[0]:
                    return [a[0], b[1], 0, b[3]]
                return None
            if isinstance(e, ast.Subscript) and \
                    isinstance(e.slice, ast.Slice) and e.slice.step is None:
                a = seq(e.value, depth + 1)
                lo, hi = e.slice.lower, e.slice.upper
                if a is None:
                    return None
                if lo is not None:
                    if not (isinstance(lo, ast.Constant) and
                            isinstance(lo.value, int) and lo.value >= 0):
                        return None
                    a[2] += lo.value
                if hi is not None:
                    v = hi.operand.value if isinstance(hi, ast.UnaryOp) and \
                        isinstance(hi.op, ast.USub) and \
                        isinstance(hi.operand, ast.Constant) else None
                    if not isinstance(v, int) or v <= 0:
                        return None
                    a[3] += v
                return a
            return None

        def settle(q):
            """(remaining single items, items of wbranches dropped in
            front, dropped at the end) -- or None."""
            if q is None or not q[1]:
                return None
            head, _, front, back = q
            take = min(front, len(head))
            return (tuple(head[take:]), front - take, back)
        prevs, cur = (settle(seq(a)) for a in loop.iter.args)
        shown = 'zip(%s)' % ', '.join(text(a) for a in loop.iter.args)
        if prevs is None or cur is None:
            raise AnalysisError('%s: pairing %s is not a form this check '
                                'knows' % (pid, shown))
        # required: previous = [source] + wbranches (the surplus last item
        # is cut by zip or by [:-1]), current = wbranches
        rep.check(prevs[:2] == ((source,), 0) and cur == ((), 0, 0), R,
                  f.qname + ': every integration branch is paired with its '
                  'predecessor, the first with the source branch',
                  f.where(loop), 'pairs are %s: %s' % (
                      shown, 'the source branch is never compared'
                      if source not in prevs[0] else
                      'the branches are not paired with their predecessor'))
    else:
        raise AnalysisError('%s: the loop of check_in_sync is not a form '
                            'this check knows' % pid)
    key = src(call)
    for val, want_it, want_ret in ((False, {('return',)}, False),
                                   (True, {('end',)}, True)):
        rep.evaluated()
        it = iteration_outcomes(an, f, loop, {key: val})
        rets = returns_under(an, f, {key: val})
        rep.check(it == want_it and want_ret in rets and
                  rets <= {True, False} and (val is False or
                                             rets == {True}), R,
                  f.qname + ': a branch that %s its predecessor %s' % (
                      'contains' if val else 'lacks', 'goes on to the next'
                      if val else 'answers False'), f.where(loop),
                  'with includes_commit() == %s an iteration does %s and '
                  'the function returns %s' % (val, sorted(it),
                                               sorted(map(str, rets))))
