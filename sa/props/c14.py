"""C14 - HTTP entry points enqueue work only for authorised callers."""
import ast
import itertools
import re

from ..program import AnalysisError, walk_local, dotted
from ..analysis import Spec, src, class_const, const_value, module_const
from ..regexlang import Lang
from ..rules import (kw, returns_under, positional_args, canon, string_template, substitute_locals, GWF, EXC, mpt, need_func, stores_to, is_const,
                     parent_map, raise_class, eval_atom, UNKNOWN)
from . import common
from .c07 import _explore
from .c12 import _first_exit

SRV = 'bert_e.server'
API = SRV + '.api'
BR = GWF + '.branches'
ADMIN_JOBS = {'CreateBranchJob', 'DeleteBranchJob', 'ForceMergeQueuesJob',
              'DeleteQueuesJob'}
NON_ADMIN = {'GetJob', 'ListJobs', 'EvalPullRequest', 'RebuildQueues'}
# routed views that need no authentication: they build no job
OPEN_VIEWS = {SRV + '.status.display', SRV + '.doc.display',
              SRV + '.addon.bitbucket_addon'}


def run(prog, an, rep):
    rep.explain(
        'C14: REG (every APIEndpoint / APIForm class is in ENDPOINTS / '
        'FORMS and registered through as_blueprint, which wraps the view in '
        'requires_auth(cls.admin); admin table by job effect), EXH (truth '
        'tables of requires_auth and requires_basic_auth by partial '
        'evaluation), decorator order on the function views, WMC (writers '
        'of session[admin/user]; callers of put_job and job '
        'constructors), MPT (repository identity and parameter validation '
        'dominate put_job / job construction), LNG (branch grammar anchored '
        'and included in the destination languages).')
    rep.assume('Flask: decorators listed below @route are part of the '
               'routed callable; View.as_view dispatches to '
               'dispatch_request; sessions are server-side')
    rep.run_rules(prog, an, [endpoint_registry, blueprint_wrapping,
                             admin_table, requires_auth_table,
                             session_writers, function_views,
                             basic_auth_table, put_job_callers,
                             repository_identity, validation_before_job,
                             branch_grammar, validated_params_win,
                             body_is_parsed, json_settings_note])


def body_is_parsed(prog, an, rep):
    """A request whose body cannot be read as JSON is refused (Flask's
    get_json answers 400): with silent=True it would be accepted and the
    job built from the URL parameters alone, without what the caller asked
    for in the body."""
    R = 'C14.ARG.body-parsed'
    n = 0
    for f in prog.all_funcs():
        if not f.module.name.startswith(SRV):
            continue
        for call in prog.calls_in(f):
            if isinstance(call.func, ast.Attribute) and \
                    call.func.attr == 'get_json':
                n += 1
                rep.evaluated()
                silent = kw(call, 'silent')
                if silent is None and len(call.args) > 1:
                    silent = call.args[1]
                rep.check(silent is None or is_const(silent, False), R,
                          f.qname + ': an unreadable body is an error',
                          f.where(call), 'get_json(silent=%s): a request '
                          'with a malformed body is accepted and enqueued '
                          'without its body' % src(silent)
                          if silent is not None else '')
            if isinstance(call.func, ast.Attribute) and \
                    src(call.func) in ('json.loads', 'flask.json.loads') and \
                    any(src(a).startswith('request.') for a in call.args):
                n += 1
    rep.floor('C14 request bodies read in the server', n, 1)


def validated_params_win(prog, an, rep):
    """APIJob.__init__: the validated URL parameters are written into the
    job's first settings map AFTER the request body was put there, so a body
    key of the same name can never replace them."""
    R = 'C14.ARG.validated-params-win'
    f = need_func(an, 'bert_e.job.APIJob.__init__')
    c = an.cfg(f)
    sup = [n for n in c.nodes.values() if n.kind == 'stmt' and
           'super().__init__(' in src(n.ast)]
    upd = [n for n in c.nodes.values() if n.kind == 'stmt' and
           src(n.ast) == 'self.settings.update(self.kwargs)']
    kw_ = [v for n in walk_local(f.node, include_root=False)
           if isinstance(n, ast.Assign) and
           src(n.targets[0]) == 'self.kwargs' for v in [n.value]]
    rep.evaluated()
    if len(sup) == 1 and not upd and \
            [src(v) for v in kw_] == ['kwargs or {}']:
        # the other spelling: the first map is built before the chain, as
        # {**body, **URL parameters} -- the parameters come last
        calls = [x for x in ast.walk(sup[0].ast) if isinstance(x, ast.Call)
                 and src(x.func) == 'super().__init__']
        m = kw(calls[0], 'settings') if calls else None
        m = substitute_locals(f, m) if m is not None else None
        last = None
        if isinstance(m, ast.Dict) and m.keys and m.keys[-1] is None:
            last = ' '.join(src(m.values[-1]).split())
        elif isinstance(m, ast.Call) and src(m.func) == 'dict' and \
                m.keywords and m.keywords[-1].arg is None and \
                len(m.args) <= 1:
            last = ' '.join(src(m.keywords[-1].value).split())
        ok = last in ('self.kwargs', 'kwargs or {}', '(kwargs or {})')
        if ok and 'kwargs' in {x.id for n in c.nodes.values()
                               if n.kind == 'stmt' and
                               isinstance(n.ast, ast.Assign)
                               for t in n.ast.targets for x in ast.walk(t)
                               if isinstance(x, ast.Name)}:
            ok = False
        rep.check(ok, R, f.qname + ': the first settings map is {**body, '
                  '**URL parameters}', f.where(sup[0]),
                  'the validated URL parameters do not come last in the map '
                  'handed to the settings chain: a body key of the same '
                  'name replaces them (%s)' % (src(m)[:80] if m is not None
                                               else 'no settings= argument'))
        later = [n for n in c.nodes.values() if n.kind == 'stmt' and
                 n.id != sup[0].id and 'self.settings' in src(n.ast) and
                 isinstance(n.ast, (ast.Assign, ast.Expr)) and
                 c.path(sup[0].id, n.id, use_exc=False) is not None]
        rep.check(not later, R, f.qname + ': nothing overwrites the '
                  'settings after the URL parameters', f.where(),
                  'settings are written again after the validated '
                  'parameters: %s' % [src(n.ast)[:40] for n in later])
        return
    ok = len(sup) == 1 and len(upd) == 1 and \
        [src(v) for v in kw_] == ['kwargs or {}']
    rep.check(ok, R, f.qname + ': self.settings.update(self.kwargs) with '
              'kwargs = the URL parameters', f.where(),
              'the validated URL parameters are no longer written over the '
              'request body (update sites: %d, kwargs bound as %s)' % (
                  len(upd), [src(v) for v in kw_]))
    if not ok:
        return
    o, path = c.must_pass(c.done_of(sup[0]), upd[0].id)
    rep.check(o, R, f.qname + ': URL parameters are applied after the body '
              'settings exist', f.where(upd[0]), 'the update runs before '
              'the settings chain is built', path=c.describe_path(path))
    # no later write to the first map
    later = [n for n in c.nodes.values() if n.kind == 'stmt' and
             n.id != upd[0].id and 'self.settings' in src(n.ast) and
             isinstance(n.ast, (ast.Assign, ast.Expr)) and
             c.path(upd[0].id, n.id, use_exc=False) is not None]
    rep.check(not later, R, f.qname + ': nothing overwrites the settings '
              'after the URL parameters', f.where(), 'settings are written '
              'again after the validated parameters: %s' %
              [src(n.ast)[:40] for n in later])
    # Job.__init__ takes settings positionally first in the chain and
    # SettingsDict.update writes into the first map
    sd = need_func(an, 'bert_e.lib.settings_dict.SettingsDict.update')
    rep.check('self._wrapped.update(other)' in src(sd.node), R,
              sd.qname + ': update writes into the chain (first map)',
              sd.where(), 'SettingsDict.update changed')
    # APIJob parameters: no `settings` re-routing
    rep.check('settings' not in f.params, R, f.qname + ': does not '
              'intercept the settings argument', f.where(),
              'APIJob.__init__ now takes `settings` itself: the order in '
              'which body and URL parameters are merged changed')


def _list_const(prog, mod, name):
    m = prog.by_name[mod]
    v = m.consts.get(name)
    if not isinstance(v, (ast.List, ast.Tuple)):
        raise AnalysisError('anchor-missing %s.%s list' % (mod, name))
    out = []
    for e in v.elts:
        q = prog.resolve_expr(m, e)
        if q not in prog.classes:
            raise AnalysisError('%s element %s is not a class' % (name,
                                                                  src(e)))
        out.append(prog.classes[q])
    return out


def endpoint_registry(prog, an, rep):
    R = 'C14.REG.endpoints'
    eps = _list_const(prog, API, 'ENDPOINTS')
    forms = _list_const(prog, API, 'FORMS')
    rep.floor('C14 ENDPOINTS', len(eps), 8)
    rep.floor('C14 FORMS', len(forms), 6)
    for base, lst, nm in ((API + '.base.APIEndpoint', eps, 'ENDPOINTS'),
                          (API + '.base.APIForm', forms, 'FORMS')):
        for k in prog.subclasses(base, strict=True):
            rep.evaluated()
            rep.check(k in lst, R, '%s is listed in %s' % (k.name, nm),
                      k.where(), '%s is defined but not in %s: it is either '
                      'dead or registered by hand without the auth wrapper' %
                      (k.name, nm))
    f = need_func(an, API + '.configure')
    regs = [x for x in prog.calls_in(f)
            if isinstance(x.func, ast.Attribute) and
            x.func.attr == 'register_blueprint']
    ok = len(regs) == 2 and all(
        len(x.args) == 1 and isinstance(x.args[0], ast.Call) and
        isinstance(x.args[0].func, ast.Attribute) and
        x.args[0].func.attr == 'as_blueprint' for x in regs)
    loops = {src(n.iter) for n in walk_local(f.node, include_root=False)
             if isinstance(n, ast.For)}
    rep.evaluated()
    rep.check(ok and loops == {'ENDPOINTS', 'FORMS'}, R, f.qname +
              ': registers exactly as_blueprint() of ENDPOINTS and FORMS',
              f.where(), 'api.configure registers %s over %s' % (
                  [src(x) for x in regs], sorted(loops)))
    # nobody else registers API views / adds url rules
    for g in prog.all_funcs():
        if g.module.name == 'bert_e.git_host.mock':
            continue
        for x in prog.calls_in(g):
            if isinstance(x.func, ast.Attribute) and \
                    x.func.attr == 'add_url_rule':
                rep.check(g.qname == API + '.base.BaseView.as_blueprint', R,
                          'add_url_rule in ' + g.qname, g.where(x),
                          'a URL rule is added outside BaseView.as_blueprint '
                          '(no auth wrapper)')
            if isinstance(x.func, ast.Attribute) and \
                    x.func.attr == 'as_view':
                rep.check(g.qname == API + '.base.BaseView.as_blueprint', R,
                          'as_view in ' + g.qname, g.where(x),
                          'a class view is instantiated outside '
                          'as_blueprint')


def blueprint_wrapping(prog, an, rep):
    R = 'C14.ARG.auth-wrapper'
    f = need_func(an, API + '.base.BaseView.as_blueprint')
    adds = [x for x in prog.calls_in(f)
            if isinstance(x.func, ast.Attribute) and
            x.func.attr == 'add_url_rule']
    if len(adds) != 1:
        raise AnalysisError('anchor-missing add_url_rule in as_blueprint')
    call = adds[0]
    kws = {k.arg: k.value for k in call.keywords}
    vf = kws.get('view_func')
    txt = src(substitute_locals(f, vf)) if vf is not None else ''
    rep.evaluated()
    rep.check(txt == 'requires_auth(cls.admin)(cls.as_view(cls.__name__))',
              R, f.qname + ': view_func = requires_auth(cls.admin)('
              'cls.as_view(...))', f.where(call), 'the routed callable is '
              '%s: the view is reachable without the session / admin check' %
              txt, detail=txt)
    cal = None
    for x in prog.calls_in(f):
        if src(x.func) == 'requires_auth':
            cal = prog.callee(f, x)
    rep.check(cal == ('func', SRV + '.auth.requires_auth'), R, f.qname +
              ': requires_auth is the server auth decorator', f.where(),
              'requires_auth resolves to %s' % (cal,))
    m = kws.get('methods')
    rep.check(m is not None and src(m) == '(cls.method,)', R, f.qname +
              ': only the declared HTTP method is routed', f.where(call),
              'methods=%s' % (src(m) if m is not None else 'default'))
    rep.check(len(call.args) >= 1 and src(call.args[0]) == 'cls.rule', R,
              f.qname + ': routes cls.rule', f.where(call), 'rule is %s' %
              [src(a) for a in call.args])


def admin_table(prog, an, rep):
    R = 'C14.REG.admin-table'
    eps = _list_const(prog, API, 'ENDPOINTS')
    for k in eps:
        rep.evaluated()
        adm = class_const(prog, k, 'admin')
        job, _ = prog.class_attr(k, 'job')
        jname = (dotted(job) or '') if job is not None and \
            not is_const(job, None) else ''
        want = jname.rpartition('.')[2] in ADMIN_JOBS
        if k.name in NON_ADMIN:
            want = False
        rep.check(isinstance(adm, bool) and adm == want, R,
                  '%s.admin == %s' % (k.name, want), k.where(),
                  '%s (job %s) has admin=%r: %s' % (
                      k.name, jname or 'none', adm,
                      'a repository-changing job can be created by any '
                      'logged-in user' if want else
                      'a read / evaluate endpoint became admin-only'))
        rep.check(k.name in NON_ADMIN or want, R, k.name + ' is a known '
                  'endpoint', k.where(), 'new endpoint %s is neither in the '
                  'non-admin table nor tied to an admin job: classify it' %
                  k.name)
    # jobs with repository-changing handlers are exactly the admin jobs
    effects = common.LOCAL_CREATE | common.PUBLISH
    for f in prog.all_funcs():
        for d in f.decorators:
            if isinstance(d, ast.Call) and src(d.func) == 'handler' and \
                    d.args:
                jn = src(d.args[0])
                if not jn.endswith('Job') or jn in ('PullRequestJob',
                                                    'CommitJob', 'QueuesJob'):
                    continue
                changes = common.reaches(an, f, effects) is not None
                rep.evaluated()
                if jn in ADMIN_JOBS:
                    rep.check(changes, R, '%s handler changes the '
                              'repository (admin job)' % jn, f.where(),
                              '%s no longer changes the repository' % jn)
                elif jn in ('EvalPullRequestJob', 'RebuildQueuesJob'):
                    rep.ok(R, '%s is a non-admin job by policy' % jn,
                           f.where(), 'evaluate / rebuild re-run the normal '
                           'gated workflow')
                else:
                    rep.check(not changes, R, '%s (unclassified job) does '
                              'not change the repository' % jn, f.where(),
                              'new job %s changes the repository: it must '
                              'be in the admin table' % jn)
    # forms copy admin from their endpoint
    f = need_func(an, API + '.base.APIForm.__init_subclass__')
    ok = any(isinstance(n, ast.Assign) and src(n.targets[0]) == 'cls.admin'
             and src(n.value) == 'cls.endpoint_cls.admin'
             for n in walk_local(f.node, include_root=False))
    rep.check(ok, R, 'APIForm.admin is copied from its endpoint', f.where(),
              'forms no longer inherit the admin flag of their endpoint')


def requires_auth_table(prog, an, rep):
    R = 'C14.EXH.requires-auth'
    f = need_func(an, SRV + '.auth.requires_auth')
    dec = f.nested.get('decorator')
    inner = dec.nested.get('decorated') if dec else None
    if inner is None:
        raise AnalysisError('anchor-missing requires_auth inner function')
    c = an.cfg(inner)
    calls = {n.id for n in c.nodes.values()
             if n.kind in ('stmt', 'return') and any(
                 isinstance(x, ast.Call) and src(x.func) == 'func'
                 for x in ast.walk(n.ast))}
    if not calls:
        rep.violation(R, inner.qname + ': calls the view', inner.where(),
                      'the wrapper never calls the wrapped view')
        return
    adm_param = f.params[0] if f.params else 'admin'
    rows = 0
    bad = False
    for user, adm_sess, adm_req in itertools.product((True, False),
                                                     repeat=3):
        # keys are canonical expressions: a local that caches one of them
        # (user_admin = session.get('admin')) evaluates the same
        env = {"session.get('user')": 'u' if user else None,
               "session.get('admin')": adm_sess, adm_param: adm_req}
        got = _explore(an, inner, c, c.entry, env, calls)
        allowed = user and (adm_sess or not adm_req)
        rows += 1
        rep.evaluated()
        if allowed:
            ok = got == {('handler',)}
        else:
            ok = ('handler',) not in got and got == {('return',)}
        if not ok:
            bad = True
            rep.violation(R, '%s: row user=%s session-admin=%s '
                          'admin-required=%s' % (inner.qname, user, adm_sess,
                                                 adm_req), inner.where(),
                          'the wrapper does %s' % sorted(map(str, got)))
    if not bad:
        rep.ok(R, '%s: %d-row truth table (view called iff logged in and '
               'admin when required)' % (inner.qname, rows), inner.where())
    # refusing answers are the 401 / 403 helpers
    rets = [n for n in c.nodes.values() if n.kind == 'return' and
            n.id not in calls]
    helpers = sorted({src(r.ast.value.func) for r in rets
                      if isinstance(r.ast.value, ast.Call)})
    rep.check(helpers == ['authenticate', 'unauthorized'], R,
              inner.qname + ': refusals are 401 / 403', inner.where(),
              'refusals return %s' % helpers)
    for name, code in (('authenticate', 401), ('unauthorized', 403),
                       ('invalid', 400)):
        h = need_func(an, SRV + '.auth.' + name)
        codes = set()
        for r in walk_local(h.node, include_root=False):
            if isinstance(r, ast.Return) and isinstance(r.value, ast.Tuple):
                codes.add(const_value(r.value.elts[-1]))
        rep.check(codes == {code}, R, '%s answers %d' % (name, code),
                  h.where(), '%s answers %s' % (name, sorted(codes)))
    # decorator(func) returns decorated; requires_auth returns decorator
    rep.check(any(isinstance(r, ast.Return) and src(r.value) == 'decorated'
                  for r in walk_local(dec.node, include_root=False)) and
              any(isinstance(r, ast.Return) and src(r.value) == 'decorator'
                  for r in walk_local(f.node, include_root=False)), R,
              f.qname + ': returns the guarded wrapper', f.where(),
              'requires_auth does not return its wrapper')


def session_writers(prog, an, rep):
    R = 'C14.WMC.session-writers'
    n = 0
    for f in prog.all_funcs():
        for x in walk_local(f.node, include_root=False):
            tg = []
            if isinstance(x, ast.Assign):
                tg = x.targets
            elif isinstance(x, ast.AugAssign):
                tg = [x.target]
            for t in tg:
                if isinstance(t, ast.Subscript) and \
                        src(t.value) == 'session' and \
                        isinstance(t.slice, ast.Constant):
                    n += 1
                    rep.evaluated()
                    key = t.slice.value
                    ok = f.qname == SRV + '.auth._handle_authorize'
                    if key == 'admin':
                        # <what session['user'] is set to> in
                        # <bert_e>.settings.admins
                        users = {src(y.value) for y in walk_local(
                            f.node, include_root=False)
                            if isinstance(y, ast.Assign) and
                            len(y.targets) == 1 and
                            src(y.targets[0]) == "session['user']"}
                        v = x.value
                        ok = ok and isinstance(v, ast.Compare) and \
                            len(v.ops) == 1 and \
                            isinstance(v.ops[0], ast.In) and \
                            {src(v.left)} == users and \
                            canon(f, v.comparators[0]) == \
                            f.params[0] + '.settings.admins'
                    rep.check(ok, R, '%s sets session[%r]' % (f.qname, key),
                              f.where(x), 'session[%r] = %s in %s: the '
                              'privilege flag is not derived from the '
                              'configured admins' % (key, src(x.value),
                                                     f.qname))
            if isinstance(x, ast.Call) and \
                    isinstance(x.func, ast.Attribute) and \
                    src(x.func.value) == 'session' and \
                    x.func.attr in ('update', 'setdefault', '__setitem__'):
                rep.violation(R, '%s: session.%s' % (f.qname, x.func.attr),
                              f.where(x), 'the session is written in bulk')
    rep.floor('C14 session stores', n, 2)
    f = need_func(an, SRV + '.auth._handle_authorize')
    c = an.cfg(f)
    # user comes from the OAuth profile; organisation check precedes
    stores = [n_ for n_ in c.nodes.values() if n_.kind == 'stmt' and
              'session[' in src(n_.ast) and isinstance(n_.ast, ast.Assign)]
    def is_org(e):
        return canon(f, e).endswith('settings.organization')

    def is_suffix_test(e):
        # <email>.endswith('@' + organization), in any string spelling
        if not (isinstance(e, ast.Call) and
                isinstance(e.func, ast.Attribute) and
                e.func.attr == 'endswith' and len(e.args) == 1):
            return False
        t = string_template(substitute_locals(f, e.args[0]))
        return t is not None and t[0] == '@{}' and \
            canon(f, t[1][0]).endswith('settings.organization') and \
            'email' in canon(f, e.func.value)
    org_ok = an.branch_nodes(f, is_org, False, expand='all') + \
        an.branch_nodes(f, is_suffix_test, True, expand=None)
    for s_ in stores:
        ok, path = c.must_pass(org_ok, s_.id)
        rep.check(ok, R, f.qname + ': organisation check before the session '
                  'is opened', f.where(s_), 'a session can be opened for an '
                  'e-mail outside the organisation',
                  path=c.describe_path(path))


def function_views(prog, an, rep):
    R = 'C14.REG.function-views'
    n = 0
    for f in prog.all_funcs():
        if f.cls is not None or not f.module.name.startswith(SRV):
            continue
        routes = [i for i, d in enumerate(f.decorators)
                  if isinstance(d, ast.Call) and
                  isinstance(d.func, ast.Attribute) and
                  d.func.attr == 'route']
        if not routes:
            continue
        n += 1
        rep.evaluated()
        auths = [i for i, d in enumerate(f.decorators)
                 if src(d) in ('requires_basic_auth', 'requires_auth()') or
                 src(d).startswith('requires_auth(')]
        if f.qname in (SRV + '.webhook.parse_bitbucket_webhook',
                       SRV + '.webhook.parse_github_webhook'):
            ok = len(auths) == 1 and \
                src(f.decorators[auths[0]]) == 'requires_basic_auth' and \
                auths[0] > max(routes)
            rep.check(ok, R, f.qname + ': requires_basic_auth below every '
                      '@route', f.where(), 'webhook view decorators are %s: '
                      'the routed callable is not the authenticated one' %
                      [src(d) for d in f.decorators])
            m = [kw_ for d in f.decorators if isinstance(d, ast.Call)
                 for kw_ in d.keywords if kw_.arg == 'methods']
            rep.check(all(src(k.value) == "['POST']" for k in m) and m, R,
                      f.qname + ': POST only', f.where(), 'methods %s' %
                      [src(k.value) for k in m])
        elif f.qname == SRV + '.manage.display':
            ok = len(auths) == 1 and auths[0] > max(routes)
            rep.check(ok, R, f.qname + ': requires_auth below every @route',
                      f.where(), 'decorators are %s' %
                      [src(d) for d in f.decorators])
        elif f.qname in OPEN_VIEWS or f.parent is not None:
            hit = common.reaches(an, f, {
                'bert_e.bert_e.BertE.put_job'}) or _builds_job(prog, an, f)
            rep.check(not hit, R, f.qname + ': unauthenticated view builds '
                      'no job', f.where(), 'unauthenticated view %s reaches '
                      '%s' % (f.qname, hit))
        else:
            rep.violation(R, f.qname + ': unknown routed view', f.where(),
                          'new routed view %s: classify it (authenticated / '
                          'open)' % f.qname)
    rep.floor('C14 routed function views', n, 5)


def _builds_job(prog, an, f):
    base = 'bert_e.job.Job'
    for call in prog.calls_in(f):
        cal = prog.callee(f, call)
        if cal[0] == 'class' and prog.is_subclass(cal[1], base):
            return cal[1]
    return None


def basic_auth_table(prog, an, rep):
    R = 'C14.EXH.basic-auth'
    f = need_func(an, SRV + '.auth.requires_basic_auth')
    inner = f.nested.get('decorated')
    if inner is None:
        raise AnalysisError('anchor-missing requires_basic_auth wrapper')
    c = an.cfg(inner)
    calls = {n.id for n in c.nodes.values()
             if n.kind in ('stmt', 'return') and any(
                 isinstance(x, ast.Call) and src(x.func) == 'func'
                 for x in ast.walk(n.ast))}
    rows = 0
    bad = False
    for has_auth, good in itertools.product((True, False), repeat=2):
        env = {'request.authorization': 'a' if has_auth else None,
               'check_basic_auth(request.authorization.username, '
               'request.authorization.password)': good}
        got = _explore(an, inner, c, c.entry, env, calls)
        rows += 1
        rep.evaluated()
        ok = got == ({('handler',)} if has_auth and good else {('return',)})
        if not ok:
            bad = True
            rep.violation(R, '%s: row credentials-present=%s valid=%s' % (
                inner.qname, has_auth, good), inner.where(),
                'the webhook wrapper does %s' % sorted(map(str, got)))
    if not bad:
        rep.ok(R, '%s: %d-row truth table' % (inner.qname, rows),
               inner.where())
    # the credentials checked are those of the request
    cb = [x for x in prog.calls_in(inner) if src(x.func) == 'check_basic_auth']
    bound = positional_args(inner, cb[0]) if len(cb) == 1 else None
    ok = bound is not None and [canon(inner, a) for _, a in bound] == [
        'request.authorization.username', 'request.authorization.password']
    rep.check(ok, R, inner.qname + ': credentials come from the request',
              inner.where(), 'check_basic_auth(%s)' % [src(x) for x in cb])
    g = need_func(an, SRV + '.auth.check_basic_auth')
    # truth table of the credential check itself: True iff both the login
    # and the password equal the configured pair
    lg = "%s == current_app.config['WEBHOOK_LOGIN']" % g.params[0]
    pw = "%s == current_app.config['WEBHOOK_PWD']" % g.params[1]
    ok = True
    shown = []
    for a_, b_ in itertools.product((True, False), repeat=2):
        got = returns_under(an, g, {lg: a_, pw: b_})
        shown.append(((a_, b_), sorted(map(str, got))))
        ok = ok and got == {a_ and b_}
        rep.evaluated()
    rep.check(ok, R, g.qname + ': login AND password equal the configured '
              'pair', g.where(), 'check_basic_auth (login ok, password ok) '
              '-> result: %s' % shown)
    h = need_func(an, SRV + '.auth.authenticate_basic')
    rep.check('401' in src(h.node), R, 'authenticate_basic answers 401',
              h.where(), 'refusal is no longer a 401')


def put_job_callers(prog, an, rep):
    R = 'C14.WMC.put-job'
    allowed = {SRV + '.webhook.parse_bitbucket_webhook',
               SRV + '.webhook.parse_github_webhook',
               API + '.base.APIEndpoint.view',
               'bert_e.jobs.rebuild_queues.rebuild_queues'}
    n = 0
    for f in prog.all_funcs():
        if f.module.name == 'bert_e.git_host.mock':
            continue
        for x in prog.calls_in(f):
            if isinstance(x.func, ast.Attribute) and \
                    x.func.attr == 'put_job':
                n += 1
                rep.evaluated()
                rep.check(f.qname in allowed, R, 'put_job called from ' +
                          f.qname, f.where(x), 'work is enqueued from %s, '
                          'which is not an authenticated entry point' %
                          f.qname)
            if isinstance(x.func, ast.Attribute) and \
                    src(x.func).endswith('task_queue.put'):
                rep.check(f.qname == 'bert_e.bert_e.BertE.put_job', R,
                          'task_queue.put in ' + f.qname, f.where(x),
                          'the task queue is fed outside put_job')
    rep.floor('C14 put_job call sites', n, 4)


def repository_identity(prog, an, rep):
    R = 'C14.MPT.repository-identity'
    f = need_func(an, SRV + '.webhook.parse_bitbucket_webhook')
    c = an.cfg(f)
    puts = an.target_nodes(f, Spec.method('put_job'), depth=0)
    handlers = an.target_nodes(f, Spec.pred(
        lambda fn, x: src(x.func).startswith('handle_bitbucket_'),
        'handle_bitbucket_*'), depth=0)
    for attr, payload in (('owner', "['repository']['owner']['username']"),
                          ('slug', "['repository']['name']")):
        tests = [t for t in an.test_nodes(
            f, lambda e: isinstance(e, ast.Compare) and len(e.ops) == 1 and
            isinstance(e.ops[0], (ast.NotEq, ast.Eq)) and
            src(e.comparators[0]).endswith('project_repo.' + attr))]
        gates = []
        for t in tests:
            gates += c.branch(t, isinstance(t.matched.ops[0], ast.Eq))
            left = src(substitute_locals(f, t.matched.left, depth=1))
            rep.check(left.endswith(payload), R, f.qname + ': %s compared '
                      'with the payload repository %s' % (attr, attr),
                      f.where(t), 'the %s check compares %s' % (attr, left))
            for b in c.branch(t, isinstance(t.matched.ops[0], ast.NotEq)):
                first = _first_exit(an, f, c, b)
                code = None
                for nn in c.reachable(start=b, use_exc=False):
                    if c.nodes[nn].kind == 'return':
                        code = _code(c.nodes[nn].ast.value)
                        break
                rep.check(first is not None and first[0] == 'return', R,
                          f.qname + ': foreign %s is refused' % attr,
                          f.where(t), 'a foreign %s leads to %s' % (attr,
                                                                    first))
        for p_ in puts + handlers:
            rep.evaluated()
            ok, path = c.must_pass(gates, p_.id)
            rep.check(ok and bool(gates), R, '%s: repository %s verified '
                      'before %s' % (f.qname, attr,
                                     src(p_.ast)[:40].replace('\n', ' ')),
                      f.where(p_), 'a webhook for another repository (%s) '
                      'can build / enqueue a job' % attr,
                      path=c.describe_path(path))
    rep.floor('C14 bitbucket job sites', len(puts) + len(handlers), 3)
    g = need_func(an, SRV + '.webhook.parse_github_webhook')
    cg = an.cfg(g)
    host = an.branch_nodes(g, lambda e: isinstance(e, ast.Compare) and
                           'repository_host' in src(e) and
                           isinstance(e.ops[0], ast.NotEq) and
                           is_const(e.comparators[0], 'github'), False)
    name = an.branch_nodes(g, lambda e: isinstance(e, ast.Compare) and
                           isinstance(e.ops[0], ast.NotEq) and
                           src(e.comparators[0]).endswith(
                               'project_repo.full_name'), False)
    puts = an.target_nodes(g, Spec.method('put_job'), depth=0)
    handlers = an.target_nodes(g, Spec.pred(
        lambda fn, x: src(x.func).startswith('handle_github_'),
        'handle_github_*'), depth=0)
    rep.floor('C14 github job sites', len(puts) + len(handlers), 6)
    for label, gates in (('host is github', host),
                         ('full_name is the configured repository', name)):
        for p_ in puts + handlers:
            rep.evaluated()
            ok, path = cg.must_pass(gates, p_.id)
            rep.check(ok and bool(gates), R, '%s: %s before %s' % (
                g.qname, label, src(p_.ast)[:40].replace('\n', ' ')),
                g.where(p_), 'a github webhook can build / enqueue a job '
                'without the check "%s"' % label,
                path=cg.describe_path(path))
    # what is compared with the configured owner/slug comes from the
    # payload: <json>.get('repository', {}).get('full_name')
    fn = []
    for t in an.test_nodes(g, lambda e: isinstance(e, ast.Compare),
                           expand=None):
        e_ = substitute_locals(g, t.ast)
        for side in (e_.left, e_.comparators[0]):
            if "get('full_name')" in src(side):
                fn.append(side)
    rep.check(len(fn) >= 1 and all("get('repository'" in src(x)
                                   for x in fn), R, g.qname +
              ': full_name read from the payload', g.where(),
              'full_name is %s' % [src(v) for v in fn])


def _code(e):
    if isinstance(e, ast.Call) and len(e.args) >= 2 and \
            isinstance(e.args[1], ast.Constant):
        return e.args[1].value
    return None


def validation_before_job(prog, an, rep):
    R = 'C14.MPT.validation'
    f = need_func(an, API + '.base.APIEndpoint.view')
    c = an.cfg(f)
    ctor = [n for n in c.nodes.values() if n.kind == 'stmt' and any(
        isinstance(x, ast.Call) and src(x.func) == 'self.job'
        for x in ast.walk(n.ast))]
    rep.floor('C14 job constructor sites in APIEndpoint.view', len(ctor), 1)
    val = an.gate_nodes(f, Spec.method('validate_endpoint_data', r'^self$'),
                        depth=0)
    for t in ctor:
        rep.evaluated()
        ok, path = c.must_pass(val, t.id)
        rep.check(ok and bool(val), R, f.qname + ': parameters validated '
                  'before the job is built', f.where(t), 'a job can be '
                  'built from unvalidated parameters',
                  path=c.describe_path(path))
        call = [x for x in ast.walk(t.ast) if isinstance(x, ast.Call) and
                src(x.func) == 'self.job'][0]
        kws = {k.arg: canon(f, k.value) for k in call.keywords}
        rep.check(kws.get('kwargs') == f.node.args.kwarg.arg and
                  kws.get('user') == "session['user']" and
                  kws.get('bert_e') == 'current_app.bert_e', R, f.qname +
                  ': the job carries the validated URL parameters and the '
                  'session user', f.where(call), 'job built with %s' % kws)
    vcalls = an.direct_calls(f, Spec.method('validate_endpoint_data',
                                            r'^self$'))
    for x in vcalls:
        rep.check(any(isinstance(a, ast.Starred) for a in x.args) and
                  any(k.arg is None for k in x.keywords) and
                  any(k.arg == 'json' for k in x.keywords), R, f.qname +
                  ': validation sees URL parameters and the JSON body',
                  f.where(x), 'validate_endpoint_data(%s)' % src(x))
    hs = [n for n in c.nodes.values() if n.kind == 'handler']
    okh = False
    for h in hs:
        if (dotted(h.ast.type) or '') == 'ValueError':
            first = _first_exit(an, f, c, h.id)
            okh = first is not None and first[0] == 'return'
            for nn in c.reachable(start=h.id, use_exc=False):
                if c.nodes[nn].kind == 'return':
                    okh = okh and src(c.nodes[nn].ast.value) == 'invalid()'
                    break
    rep.check(okh, R, f.qname + ': invalid parameters answer 400',
              f.where(), 'a ValueError from validation is not answered '
              'with invalid()')
    # endpoints with URL converters override the validator and test each
    eps = _list_const(prog, API, 'ENDPOINTS')
    n = 0
    for k in eps:
        rule = class_const(prog, k, 'rule')
        names = re.findall(r'<(?:\w+:)?(\w+)>', rule)
        uses_base_view = prog.lookup_method(k, 'view').qname == f.qname
        if not names or not uses_base_view:
            continue
        n += 1
        v = k.methods.get('validate_endpoint_data')
        rep.evaluated()
        if v is None:
            rep.violation(R, k.name + '.validate_endpoint_data', k.where(),
                          '%s takes URL parameters %s but does not validate '
                          'them' % (k.name, names))
            continue
        vc = an.cfg(v)
        for nm in names:
            tests = [t for t in an.test_nodes(
                v, lambda e, nm=nm: nm in {x.id for x in ast.walk(e)
                                           if isinstance(x, ast.Name)})]
            raises = False
            for t in tests:
                for val_ in (True, False):
                    for b in vc.branch(t, val_):
                        first = _first_exit(an, v, vc, b)
                        if first and first[0] == 'raise' and \
                                (first[1] or '').endswith('ValueError'):
                            raises = True
            rep.check(raises, R, '%s validates URL parameter %r' % (k.name,
                                                                    nm),
                      v.where(), '%s.validate_endpoint_data no longer '
                      'rejects a bad %r' % (k.name, nm))
    rep.floor('C14 endpoints with URL parameters', n, 3)
    # pr ids
    ev = prog.cls(API + '.pull_requests.EvalPullRequest')
    v = ev.methods.get('validate_endpoint_data')
    if v is not None:
        t = [x for x in an.test_nodes(v, lambda e: isinstance(e,
                                                              ast.Compare))]
        ok = any(src(x.ast) in ('pr_id < 1', 'pr_id <= 0', '1 > pr_id',
                                '0 >= pr_id') for x in t)
        rep.check(ok, R, 'EvalPullRequest rejects pr_id < 1', v.where(),
                  'pr id validation is %s' % [src(x.ast) for x in t])
    # branch validators use the module regexes with re.match
    for cname, params in (('CreateBranch', ('branch', 'branch_from')),
                          ('DeleteBranch', ('branch',))):
        k = prog.cls(API + '.gwf.branches.' + cname)
        v = k.methods.get('validate_endpoint_data')
        if v is None:
            continue
        from ..rules import reaching_value
        mod = prog.by_name[API + '.gwf.branches']

        def text_of(p_):
            """The pattern text, and the module constant it is if any."""
            if isinstance(p_, ast.Name):
                rv = reaching_value(an, v, p_)
                if rv is not None:
                    return text_of(rv)
                try:
                    return module_const(prog, mod, p_.id)
                except AnalysisError:
                    return None
            if isinstance(p_, ast.Call) and \
                    dotted(p_.func) == 're.compile' and p_.args:
                return text_of(p_.args[0])
            try:
                t_ = const_value(p_)
            except AnalysisError:
                return None
            return t_ if isinstance(t_, str) else None
        got = []
        for x in prog.calls_in(v):
            if dotted(x.func) in ('re.match', 're.fullmatch') and \
                    len(x.args) == 2:
                got.append((text_of(x.args[0]), src(x.args[1])))
            elif isinstance(x.func, ast.Attribute) and \
                    x.func.attr in ('match', 'fullmatch') and \
                    len(x.args) == 1 and text_of(x.func.value) is not None:
                got.append((text_of(x.func.value), src(x.args[0])))
        want = [(module_const(prog, mod, 'BRANCH_REGEXP'), 'branch')]
        if 'branch_from' in params:
            want.append((module_const(prog, mod, 'BRANCH_FROM_REGEXP'),
                         "json['branch_from']"))
        rep.evaluated()
        rep.check(sorted(got, key=str) == sorted(want, key=str), R,
                  '%s matches %s' % (cname, [s_ for _, s_ in want]),
                  v.where(), '%s validates with %s' % (cname, got))


def branch_grammar(prog, an, rep):
    R = 'C14.LNG.branch-grammar'
    m = prog.by_name[API + '.gwf.branches']
    br = module_const(prog, m, 'BRANCH_REGEXP')
    bf = module_const(prog, m, 'BRANCH_FROM_REGEXP')
    L = Lang.from_regex(br)
    dest = None
    for name in ('DevelopmentBranch', 'StabilizationBranch', 'HotfixBranch'):
        k = prog.cls(BR + '.' + name)
        lk = Lang.from_regex(class_const(prog, k, 'pattern'))
        dest = lk if dest is None else dest.union(lk)
    rep.evaluated()
    ok, w = L.subset_of(dest)
    rep.check(ok, R, 'L(BRANCH_REGEXP) within development | stabilization | '
              'hotfix names', m.path, 'the API accepts branch name %r, which '
              'is not a destination branch name (unanchored alternative?)' %
              w, detail=br)
    want = Lang.from_regex(
        r'^development/\d+\.\d+$|^stabilization/\d+\.\d+\.\d+$|'
        r'^hotfix/\d+\.\d+\.\d+$')
    ok, w = L.equivalent(want)
    rep.evaluated()
    rep.check(ok, R, 'L(BRANCH_REGEXP) is the documented API grammar',
              m.path, 'API branch grammar differs on %r' % w)
    Lf = Lang.from_regex(bf)
    wantf = Lang.from_regex(r'^[a-fA-F0-9]*$|^development/\d+\.\d+$')
    ok, w = Lf.equivalent(wantf)
    rep.evaluated()
    rep.check(ok, R, 'L(BRANCH_FROM_REGEXP) is a hex sha or a development '
              'branch', m.path, 'branch_from grammar differs on %r (a shell '
              'or ref-special character would reach git)' % w, detail=bf)


def json_settings_note(prog, an, rep):
    f = need_func(an, API + '.base.APIEndpoint.view')
    for x in prog.calls_in(f):
        if src(x.func) == 'self.job':
            for k in x.keywords:
                if k.arg == 'settings' and src(k.value) == 'json':
                    rep.note('N-C14-1 (informational, not armed): %s passes '
                             'the whole JSON body as the job\'s first '
                             'settings map (settings=json); an '
                             'authenticated caller can shadow global '
                             'settings for that one job. The armed rule '
                             'checks that the validated parameters arrive '
                             'unaltered.' % f.where(x))
