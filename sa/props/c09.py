"""C09 (partial) - cascade computation: the clauses that are visible in the
shape of the code.  Decided: the version-ordering comparators as exhaustive
case tables (development/x after every development/x.*, stabilization queue
before its development queue), the rejection guards for ill-formed cascades,
which hotfix branch may enter a cascade, and which branch kind contributes a
fix version in which case.  NOT decided: the computed lists themselves
(targets, ignored branches, version arithmetic) on concrete branch/tag sets.
"""
import ast
import itertools

from ..program import AnalysisError, walk_local, dotted
from ..analysis import Spec, src, const_value
from ..rules import (inside, before, ctext, strip_wrappers, kw, canon, cond_equiv, flow_canon, chained_assign_value, substitute_locals,
                     iteration_outcomes, kind_env, GWF, EXC, need_func, stores_to, is_const, raise_class,
                     eval_atom, eval_cond, UNKNOWN, parent_map)
from . import common
from .c12 import _first_exit
from .c17 import _returns

BR = GWF + '.branches'


def run(prog, an, rep):
    rep.explain(
        'C09 (structural clauses only): EXH (case tables of '
        'compare_branches, compare_queues and DevelopmentBranch.__lt__ by '
        'partial evaluation), MPT (a second branch of the same kind and '
        'version is rejected before it is stored; only the hotfix branch '
        'that is the destination enters the cascade), REG (rejection '
        'guards of validate / update_versions with their operators), EXH '
        '(which branch kind contributes the expected fix version in each '
        'case of _set_target_versions).')
    rep.assume('the value of the computed cascade (target list, ignored '
               'branches, next patch / minor numbers) on concrete sets of '
               'branches and tags is NOT decided here; that needs '
               'exhaustive execution')
    rep.run_rules(prog, an, [merge_paths_before_pruning, compare_branches_table, dev_lt_table,
                             compare_queues_table, sorted_by_comparators,
                             duplicate_rejected, hotfix_admission,
                             rejection_guards, finalize_rejects_lines,
                             target_version_cases,
                             accumulators_monotone])


ACCUMULATORS = ('hfrev', 'micro', 'latest_minor')


def accumulators_monotone(prog, an, rep):
    """"every order of discovery": each version counter learnt from tags /
    branches is updated as max(<new>, <its previous value>), so the result
    does not depend on the order in which tags and branches are seen."""
    R = 'C09.DEP.order-insensitive'
    n = 0
    for q in (BR + '.BranchCascade.update_versions',
              BR + '.BranchCascade._update_major_versions'):
        f = need_func(an, q)
        for st in walk_local(f.node, include_root=False):
            if not (isinstance(st, ast.Assign) and len(st.targets) == 1 and
                    isinstance(st.targets[0], ast.Attribute) and
                    st.targets[0].attr in ACCUMULATORS):
                continue
            n += 1
            rep.evaluated()
            tgt = src(st.targets[0])
            v = st.value
            if isinstance(v, ast.Name):     # the max kept in a local first
                v = chained_assign_value(f, v.id) or v
            ok = isinstance(v, ast.Call) and src(v.func) == 'max'
            keeps = False
            if ok:
                for a in v.args:
                    if src(a) == tgt:
                        keeps = True
                    elif isinstance(a, ast.Name):
                        # a list the previous value was appended to,
                        # unconditionally, before the max
                        for x in walk_local(f.node, include_root=False):
                            if isinstance(x, ast.Expr) and \
                                    src(x.value) == '%s.append(%s)' % (
                                        a.id, tgt):
                                pm = parent_map(f.node)
                                same_block = pm.get(x) is pm.get(st)
                                keeps = keeps or same_block
            rep.check(ok and keeps, R, '%s: %s = max(..., previous %s)' % (
                f.qname, tgt, tgt), f.where(st), '%s is assigned %s: the '
                'value learnt earlier can be lost, so the computed version '
                'depends on the order in which tags / branches are '
                'discovered' % (tgt, src(v)))
    rep.floor('C09 version accumulators', n, 4)


def _ret_values(an, f, env):
    return _returns(an, f, an.cfg(f), env)


def compare_branches_table(prog, an, rep):
    R = 'C09.EXH.compare-branches'
    f = need_func(an, BR + '.compare_branches')
    rows = 0
    bad = False
    # the (major, minor) keys of the two entries, whatever the locals are
    # called
    p1, p2 = f.params[0], f.params[1]
    M1, m1, M2, m2 = ('%s[0][0]' % p1, '%s[0][1]' % p1,
                      '%s[0][0]' % p2, '%s[0][1]' % p2)
    for same_major, same_minor, n1, n2 in itertools.product((True, False),
                                                            repeat=4):
        if same_minor and n1 != n2:
            continue
        if n1 and n2 and not same_minor:
            continue
        env = {'%s == %s' % (M1, M2): same_major,
               '%s == %s' % (m1, m2): same_minor,
               '%s is None' % m1: n1, '%s is None' % m2: n2}
        got = _ret_values(an, f, env)
        if not same_major:
            want = {'%s - %s' % (M1, M2)}
        elif same_minor:
            want = {0}
        elif n1:
            want = {1}          # development/x sorts after development/x.y
        elif n2:
            want = {-1}
        else:
            want = {'%s - %s' % (m1, m2)}
        rows += 1
        rep.evaluated()
        if got != want:
            bad = True
            rep.violation(R, '%s: row %s' % (f.qname, env), f.where(),
                          'compare_branches answers %s, required %s' % (
                              sorted(map(str, got)), sorted(map(str, want))))
    if not bad:
        rep.ok(R, '%s: %d-row case table (major first; development/x after '
               'every development/x.*; else by minor)' % (f.qname, rows),
               f.where())


def dev_lt_table(prog, an, rep):
    R = 'C09.EXH.development-order'
    f = need_func(an, BR + '.DevelopmentBranch.__lt__')
    rows = 0
    bad = False
    for diff_cls, diff_major, n1, n2 in itertools.product((True, False),
                                                          repeat=4):
        env = {'self.__class__ != other.__class__': diff_cls,
               'self.major != other.major': diff_major,
               'self.minor is None': n1, 'other.minor is None': n2}
        got = _ret_values(an, f, env)
        if diff_cls:
            want = {'NotImplemented'}
        elif diff_major:
            want = {'self.major < other.major'}
        elif n1:
            want = {False}
        elif n2:
            want = {True}
        else:
            want = {'self.minor < other.minor'}
        rows += 1
        rep.evaluated()
        if got != want:
            bad = True
            rep.violation(R, '%s: row %s' % (f.qname, env), f.where(),
                          '__lt__ answers %s, required %s' % (
                              sorted(map(str, got)), sorted(map(str, want))))
    if not bad:
        rep.ok(R, '%s: %d-row case table (development/x is never less than '
               'a development/x.y of its major)' % (f.qname, rows),
               f.where())
    k = prog.cls(BR + '.DevelopmentBranch')
    decs = [src(d) for d in k.node.decorator_list]
    rep.check('total_ordering' in decs, R, 'DevelopmentBranch is '
              '@total_ordering', k.where(), 'decorators: %s' % decs)
    eq = k.methods.get('__eq__')
    ok = eq is not None and all(
        t in src(eq.node) for t in ('self.__class__ == other.__class__',
                                    'self.major == other.major',
                                    'self.minor == other.minor'))
    rep.check(ok, R, 'DevelopmentBranch.__eq__ by class, major and minor',
              k.where(), 'DevelopmentBranch.__eq__ changed')


def compare_queues_table(prog, an, rep):
    R = 'C09.EXH.compare-queues'
    f = need_func(an, BR + '.compare_queues')
    for same, l1, l2 in ((True, (3, 2), -1), (True, (2, 3), 1),
                         (True, (2, 2), 'delegate'),
                         (False, (3, 2), 'delegate')):
        a, b = l1
        # the version tuples of the two entries, whatever the locals are
        # called
        p1, p2 = f.params[0], f.params[1]
        v1, v2 = p1 + '[0]', p2 + '[0]'
        env = {'%s[0] == %s[0]' % (v1, v2): same,
               '%s[1] == %s[1]' % (v1, v2): same,
               'len(%s) == 3' % v1: a == 3, 'len(%s) == 2' % v2: b == 2,
               'len(%s) == 3' % v2: b == 3, 'len(%s) == 2' % v1: a == 2}
        got = _ret_values(an, f, env)
        want = {l2} if l2 != 'delegate' else {
            'compare_branches(%s, %s)' % (p1, p2)}
        rep.evaluated()
        rep.check(got == want, R, '%s: same line=%s lengths=%s -> %s' % (
            f.qname, same, l1, l2), f.where(), 'compare_queues answers %s' %
            sorted(map(str, got)))


def _version_order_key(k, lam=None):
    """How a sort key orders (version, branches) items, compared with
    compare_branches (major first, then minor, a missing minor last): 'ok',
    'truthy' when a falsy minor (0) is treated like a missing one, 'low'
    when a missing minor does not come last, else 'unknown'.  k: the
    function that holds the code; lam: the lambda when the key is written
    in place.  The key is read as two tuples, one for a missing minor and
    one for a present one, compared component by component."""
    if lam is not None:
        if len(lam.args.args) != 1:
            return 'unknown'
        item, f = lam.args.args[0].arg, None
        rets = [(lam.body, [])]
    else:
        if len(k.params) != 1:
            return 'unknown'
        item, f = k.params[0], k
        pm = parent_map(k.node)
        rets = []
        for r in walk_local(k.node, include_root=False):
            if not isinstance(r, ast.Return):
                continue
            conds = []
            n = r
            while n in pm:
                p_ = pm[n]
                if isinstance(p_, ast.If) and n is not p_.test:
                    conds.append((p_.test, n in p_.body))
                elif isinstance(p_, (ast.For, ast.While, ast.Try)):
                    return 'unknown'
                n = p_
            # an `if ...: return` before it: the negation holds here
            blk = pm.get(r)
            for st in walk_local(k.node, include_root=False):
                if isinstance(st, ast.If) and not st.orelse and \
                        st is not blk and before(k, st, r) and \
                        not inside(st, r) and st.body and \
                        isinstance(st.body[-1], ast.Return):
                    conds.append((st.test, False))
            rets.append((r.value, conds))
    major, minor = '%s[0][0]' % item, '%s[0][1]' % item
    verdict = ['ok']

    def missing(test):
        """True / False: the test says the minor is missing / present;
        None: it says something else."""
        t = canon(f, test)
        if t == minor + ' is None':
            return True
        if t == minor + ' is not None':
            return False
        if t == minor:
            verdict[0] = 'truthy'
            return False
        if t == 'not ' + minor:
            verdict[0] = 'truthy'
            return True
        return None

    def under(e, case):
        """e with its conditional expressions decided for the case."""
        e = substitute_locals(f, e) if f is not None else e
        if isinstance(e, ast.IfExp):
            m = missing(e.test)
            if m is None:
                return None
            return under(e.body if m == case else e.orelse, case)
        if isinstance(e, ast.BoolOp) and isinstance(e.op, ast.Or) and \
                len(e.values) == 2 and canon(f, e.values[0]) == minor:
            verdict[0] = 'truthy'
            return under(e.values[1] if case else e.values[0], case)
        return e
    tuples = {}
    for value, conds in rets:
        for case in (True, False):
            ms = [missing(t) == case if pol else missing(t) == (not case)
                  for t, pol in conds]
            if any(missing(t) is None for t, _ in conds):
                return 'unknown'
            if not all(ms):
                continue
            v = under(value, case)
            if not isinstance(v, ast.Tuple):
                return 'unknown'
            comps = [under(c_, case) for c_ in v.elts]
            if any(c_ is None for c_ in comps) or case in tuples:
                return 'unknown'
            tuples[case] = comps
    if set(tuples) != {True, False}:
        return 'unknown'
    top = ("float('inf')", 'math.inf', 'inf')

    def comp(e):
        t = canon(f, e)
        if t == major:
            return ('major',)
        if t == minor:
            return ('minor',)
        if t in top:
            return ('top',)
        try:
            val = ast.literal_eval(t)
        except (ValueError, SyntaxError):
            return None
        return ('num', val) if isinstance(val, (int, float)) and \
            not isinstance(val, bool) else None
    none_t = [comp(e) for e in tuples[True]]
    some_t = [comp(e) for e in tuples[False]]
    if None in none_t or None in some_t or not none_t or not some_t or \
            none_t[0] != ('major',) or some_t[0] != ('major',):
        return 'unknown'
    # after the major: the missing-minor tuple must be greater than the
    # other one for every minor, and the other one increase with the minor
    if ('minor',) in none_t or some_t.count(('minor',)) != 1:
        return 'unknown'
    for a_, b_ in zip(none_t[1:], some_t[1:]):
        if b_ == ('minor',):
            if a_ == ('top',):
                return verdict[0]
            return 'low' if a_[0] == 'num' else 'unknown'
        if a_[0] == 'num' and b_[0] == 'num':
            if a_[1] > b_[1]:
                # decided before the minor is looked at: it must still be
                # what orders the present minors
                rest = some_t[1:]
                i = rest.index(('minor',))
                if all(x[0] == 'num' for x in rest[:i]):
                    return verdict[0]
                return 'unknown'
            if a_[1] < b_[1]:
                return 'low'
            continue
        if a_ == ('top',) and b_[0] == 'num':
            return verdict[0]
        return 'unknown'
    return 'unknown'


def sorted_by_comparators(prog, an, rep):
    R = 'C09.ARG.sorting'
    for q, var, cmp_ in ((BR + '.BranchCascade.add_branch', 'self._cascade',
                          'compare_branches'),
                         (BR + '.QueueCollection._add_branch',
                          'self._queues', 'compare_queues')):
        f = need_func(an, q)
        c = an.cfg(f)
        sorts = []
        for n in c.nodes.values():
            if n.kind == 'stmt' and isinstance(n.ast, ast.Assign) and \
                    src(n.ast.targets[0]) == var and \
                    canon(f, n.ast.value).replace(' ', '') == (
                        'OrderedDict(sorted(%s.items(),key=cmp_to_key(%s)))'
                        % (var, cmp_)):
                sorts += c.done_of(n)
        # ... or with a key function that spells the same order
        # (compare_branches: major, then minor, a missing minor last)
        keyed = []
        for n in c.nodes.values():
            if n.kind == 'stmt' and isinstance(n.ast, ast.Assign) and \
                    src(n.ast.targets[0]) == var and not sorts:
                v = strip_wrappers(n.ast.value, names=('OrderedDict',))
                if isinstance(v, ast.Call) and src(v.func) == 'sorted' and \
                        len(v.args) == 1 and \
                        canon(f, v.args[0]) == var + '.items()' and \
                        kw(v, 'key') is not None and not kw(v, 'reverse'):
                    keyed.append((n, kw(v, 'key')))
        for n, key in keyed:
            cal = prog.resolve_expr(f.module, key, f) \
                if isinstance(key, ast.Name) else None
            kf = prog.funcs.get(cal) if cal else None
            verdict = 'unknown'
            if cmp_ == 'compare_branches' and kf is not None:
                verdict = _version_order_key(kf)
            elif cmp_ == 'compare_branches' and isinstance(key, ast.Lambda):
                verdict = _version_order_key(f, key)
            if verdict == 'unknown':
                raise AnalysisError('C09: %s sorts %s with key %s, a form '
                                    'this check cannot compare with %s' % (
                                        f.qname, var, src(key), cmp_))
            rep.evaluated()
            rep.check(verdict == 'ok', R, '%s: the sort key %s orders like '
                      '%s' % (f.qname, src(key)[:40], cmp_),
                      (kf or f).where(n if kf is None else None),
                      'the key treats a minor version of 0 like a missing '
                      'one: development/x.0 is ordered after every '
                      'development/x.y' if verdict == 'truthy' else
                      'the key orders a missing minor version like a '
                      'number: development/x is not after every '
                      'development/x.y')
            if verdict == 'ok':
                sorts += c.done_of(n)
        rep.evaluated()
        rep.check(bool(sorts), R, '%s keeps %s sorted with %s' % (
            f.qname, var, cmp_), f.where(), '%s is no longer re-sorted with '
            '%s after an insertion' % (var, cmp_))
        # a new version line is inserted as <var>[key] = {...}: from there
        # every way out of the function passes the re-sort ("for every
        # order of discovery": no shortcut that skips it)
        ins = [n for n in c.nodes.values() if n.kind == 'stmt' and
               isinstance(n.ast, ast.Assign) and
               isinstance(n.ast.targets[0], ast.Subscript) and
               canon(f, n.ast.targets[0].value, paths_only=True) == var and
               isinstance(n.ast.value, (ast.Dict, ast.Call))]
        rep.floor('C09 insertions of a version line in ' + f.name,
                  len(ins), 1)
        for n in ins:
            for d in c.done_of(n):
                rep.evaluated()
                pth = c.path(d, c.exit, removed=set(sorts), use_exc=False)
                rep.check(pth is None, R, '%s: every insertion is followed '
                          'by the re-sort' % f.qname, f.where(n),
                          'after inserting a version line %s can return '
                          'without re-sorting %s: the order then depends '
                          'on the order of discovery' % (f.name, var),
                          path=c.describe_path(pth))


def merge_paths_before_pruning(prog, an, rep):
    """finalize() removes the untargeted lines from the cascade; the merge
    paths (memoised by get_merge_paths) must be computed on the complete
    cascade, i.e. before the first removal, for every destination."""
    R = 'C09.MPT.merge-paths'
    f = need_func(an, BR + '.BranchCascade.finalize')
    c = an.cfg(f)
    gates = an.gate_nodes(f, Spec.method('get_merge_paths', r'^self$'),
                          depth=1)
    prunes = []
    for n in c.nodes.values():
        if n.kind != 'stmt':
            continue
        st = n.ast
        if isinstance(st, ast.Delete) and any(
                'self._cascade' in canon(f, t, paths_only=True)
                for t in st.targets):
            prunes.append(n)
        elif isinstance(st, ast.Assign) and \
                isinstance(st.targets[0], ast.Subscript) and \
                is_const(st.value, None) and \
                src(st.targets[0].slice) in ('DevelopmentBranch',
                                             'StabilizationBranch',
                                             'HotfixBranch'):
            prunes.append(n)
    rep.floor('C09 pruning statements in finalize', len(prunes), 3)
    for n in prunes:
        rep.evaluated()
        ok, path = c.must_pass(gates, n.id)
        rep.check(ok and bool(gates), R, f.qname + ': merge paths computed '
                  'before `%s`' % src(st)[:40], f.where(n), 'a version line '
                  'is removed from the cascade before the merge paths were '
                  'computed: get_merge_paths() then answers from the pruned '
                  'cascade', path=c.describe_path(path))
    gm = need_func(an, BR + '.BranchCascade.get_merge_paths')
    rep.check('self._merge_paths' in src(gm.node), R, gm.qname +
              ': merge paths are memoised', gm.where(), 'get_merge_paths no '
              'longer keeps its result: it is recomputed on the pruned '
              'cascade')


def duplicate_rejected(prog, an, rep):
    R = 'C09.MPT.duplicate-kind'
    f = need_func(an, BR + '.BranchCascade.add_branch')
    c = an.cfg(f)
    # the slot of this branch: the cascade entry of its (major, minor),
    # indexed by its class -- whatever locals the text goes through
    SLOT = 'self._cascade[%s.major, %s.minor][%s.__class__]' % (
        (f.params[1],) * 3)
    stores = [n for n in c.nodes.values() if n.kind == 'stmt' and
              isinstance(n.ast, ast.Assign) and
              canon(f, n.ast.targets[0]) == SLOT]
    rep.floor('C09 branch stores in add_branch', len(stores), 1)
    free = an.branch_nodes(f, lambda e: canon(f, e) == SLOT, False)
    taken = an.branch_nodes(f, lambda e: canon(f, e) == SLOT, True)
    rep.check(bool(free), R, f.qname + ': looks up the branch of the same '
              'kind and version', f.where(), 'no test of %s' % SLOT)
    for s_ in stores:
        rep.evaluated()
        ok, path = c.must_pass(free, s_.id)
        rep.check(ok and bool(free), R, f.qname + ': a second branch of the '
                  'same kind and version is never stored', f.where(s_),
                  'two stabilization (or development / hotfix) branches of '
                  'one version can enter the cascade: the later one '
                  'silently replaces the earlier', path=c.describe_path(path))
    for b in taken:
        first = _first_exit(an, f, c, b)
        rep.check(first is not None and first[0] == 'raise' and
                  (first[1] or '').endswith(
                      '.UnsupportedMultipleStabBranches'), R, f.qname +
                  ': the duplicate is rejected with '
                  'UnsupportedMultipleStabBranches', f.where(),
                  'a duplicate leads to %s' % (first,))


def hotfix_admission(prog, an, rep):
    R = 'C09.MPT.hotfix-admission'
    f = need_func(an, BR + '.BranchCascade.add_branch')
    c = an.cfg(f)
    stores = [n for n in c.nodes.values() if n.kind == 'stmt' and
              isinstance(n.ast, ast.Assign) and
              'self._cascade[' in src(n.ast.targets[0])]
    not_hf = an.branch_nodes(f, lambda e: src(e) ==
                             'branch.__class__ is HotfixBranch', False)
    same = {}
    for attr in ('major', 'minor', 'micro'):
        same[attr] = an.branch_nodes(
            f, lambda e, a=attr: src(e) == 'branch.%s != dst_branch.%s' % (
                a, a), False)
    dst_hf = an.branch_nodes(f, lambda e: src(e) ==
                             'dst_branch.__class__ is HotfixBranch', True)
    for s_ in stores:
        for label, g in [('the destination is a hotfix branch', dst_hf)] + \
                [('same %s as the destination' % a, same[a])
                 for a in same]:
            rep.evaluated()
            ok, path = c.must_pass(not_hf + g, s_.id)
            rep.check(ok and bool(g), R, f.qname + ': a hotfix branch '
                      'enters the cascade only if ' + label, f.where(s_),
                      'a hotfix branch other than the destination can enter '
                      'the cascade (condition "%s" not enforced)' % label,
                      path=c.describe_path(path))


def _cascade_loop(f):
    """(the loop over self._cascade.items(), name of the per-line mapping)
    of a BranchCascade method: `for (major, minor), <holder> in ...`."""
    for n in walk_local(f.node, include_root=False):
        if isinstance(n, ast.For) and isinstance(n.target, ast.Tuple) and \
                len(n.target.elts) == 2 and \
                isinstance(n.target.elts[1], ast.Name) and \
                'self._cascade.items()' in src(n.iter):
            return n, n.target.elts[1].id
    raise AnalysisError('anchor-missing loop over self._cascade.items() in '
                        + f.qname)


def _cascade_loops(f):
    out = []
    for n in walk_local(f.node, include_root=False):
        if isinstance(n, ast.For) and isinstance(n.target, ast.Tuple) and \
                len(n.target.elts) == 2 and \
                isinstance(n.target.elts[1], ast.Name) and \
                'self._cascade.items()' in src(n.iter):
            out.append((n, n.target.elts[1].id))
    return out


def finalize_rejects_lines(prog, an, rep):
    """Whatever the destination, every walk of finalize over the lines of
    the cascade rejects a line that has neither a development nor a hotfix
    branch (a dangling stabilization branch)."""
    R = 'C09.REG.rejections'
    f = need_func(an, BR + '.BranchCascade.finalize')
    loops = _cascade_loops(f)
    rep.floor('C09 walks over the cascade in finalize', len(loops), 1)
    K = ('DevelopmentBranch', 'StabilizationBranch', 'HotfixBranch')
    for loop, holder in loops:
        for stb in (True, False):
            rep.evaluated()
            env = kind_env(holder, dict(zip(K, (False, stb, False))))
            got = iteration_outcomes(an, f, loop, env)
            names = {(o[0],) + tuple(str(x).rpartition('.')[2]
                                     for x in o[1:]) for o in got}
            rep.check(names == {('raise', 'DevBranchDoesNotExist')}, R,
                      '%s: a line without development and hotfix branch '
                      '(stab=%s) is rejected' % (f.qname, stb),
                      f.where(loop), 'a version line with neither a '
                      'development nor a hotfix branch (stab=%s) leads to '
                      '%s in this walk (required: DevBranchDoesNotExist)'
                      % (stb, sorted(map(str, names))))


def rejection_guards(prog, an, rep):
    R = 'C09.REG.rejections'
    v = need_func(an, BR + '.BranchCascade.validate')
    c = an.cfg(v)
    loop, holder = _cascade_loop(v)
    K = ('DevelopmentBranch', 'StabilizationBranch', 'HotfixBranch')
    for dev, stb, hf in itertools.product((True, False), repeat=3):
        env = kind_env(holder, dict(zip(K, (dev, stb, hf))))
        got = iteration_outcomes(an, v, loop, env)
        rep.evaluated()
        if not dev:
            # only a hotfix-only line is exempt from "needs a development
            # branch"
            want = {('continue',)} if (not stb and hf) else \
                {('raise', BR + '.errors.DevBranchDoesNotExist')}
            ok = {(o[0],) + tuple(str(x).rpartition('.')[2] for x in o[1:])
                  for o in got} == \
                {(o[0],) + tuple(str(x).rpartition('.')[2] for x in o[1:])
                 for o in want}
            rep.check(ok, R, '%s: line with dev=%s stab=%s hotfix=%s' % (
                v.qname, dev, stb, hf), v.where(), 'a version line without '
                'development branch (stab=%s, hotfix=%s) leads to %s '
                '(required %s)' % (stb, hf, sorted(map(str, got)),
                                   sorted(map(str, want))))
        else:
            rep.check(('continue',) not in got, R, '%s: a line with a '
                      'development branch is validated (stab=%s hotfix=%s)'
                      % (v.qname, stb, hf), v.where(), 'a version line '
                      'with a development branch is skipped')
    # stabilization micro must be the next patch of its development branch
    mm = '%s[DevelopmentBranch].micro + 1 == %s[StabilizationBranch].micro' \
        % (holder, holder)
    env = kind_env(holder, dict(zip(K, (True, True, False))))
    env[mm] = False
    got = iteration_outcomes(an, v, loop, env)
    rep.evaluated()
    rep.check({str(o[-1]).rpartition('.')[2] for o in got} ==
              {'VersionMismatch'}, R, v.qname + ': a stabilization micro '
              'that is not the next patch -> VersionMismatch', v.where(),
              'with dev.micro + 1 != stab.micro the validation does %s' %
              sorted(map(str, got)))
    u = need_func(an, BR + '.BranchCascade.update_versions')
    cu = an.cfg(u)
    dep = [n for n in cu.nodes.values() if n.kind == 'raise_stmt' and
           (raise_class(an, u, n.ast) or '').endswith(
               '.DeprecatedStabilizationBranch')]
    rep.floor('C09 DeprecatedStabilizationBranch raise sites', len(dep), 2)
    def is_le_tag_micro(e):
        return isinstance(e, ast.Compare) and len(e.ops) == 1 and \
            isinstance(e.ops[0], ast.LtE) and \
            src(e.left).endswith('(StabilizationBranch).micro') and \
            any(x in src(e.comparators[0])
                for x in ("['micro']", "group('micro')"))

    def is_hf_micro(e):
        if not (isinstance(e, ast.Compare) and len(e.ops) == 1 and
                isinstance(e.ops[0], ast.Eq)):
            return False
        sides = {src(e.left).rpartition('(')[2],
                 src(e.comparators[0]).rpartition('(')[2]}
        return sides == {'StabilizationBranch).micro',
                         'HotfixBranch).micro'}
    t1 = an.branch_nodes(u, is_le_tag_micro, True, expand='all')
    t2 = an.branch_nodes(u, is_hf_micro, True, expand='all')
    covered = 0
    for n in dep:
        for g in (t1, t2):
            ok, _ = cu.must_pass(g, n.id)
            if ok and g:
                covered += 1
    rep.evaluated()
    rep.check(covered == 2 and bool(t1) and bool(t2), R, u.qname +
              ': a stabilization branch whose release tag (or hotfix branch) '
              'exists is rejected', u.where(), 'the released-stabilization '
              'rejection changed (tests found: tag %d, hotfix %d)' % (
                  len(t1), len(t2)))
    pat = [substitute_locals(u, x.args[0]) for x in prog.calls_in(u)
           if dotted(x.func) == 're.match' and x.args]
    from ..regexlang import Lang
    got = Lang.from_regex(const_value(pat[0])) if pat else None
    want = Lang.from_regex(r'^v?\d+\.\d+\.\d+(\.\d+)?$')
    ok, w = got.equivalent(want) if got else (False, None)
    rep.evaluated()
    rep.check(ok, 'C09.LNG.tags', u.qname + ': release tags are [v]x.y.z'
              '[.n] exactly (suffixed tags ignored)', u.where(),
              'tag language differs on %r' % w)
    fz = need_func(an, BR + '.BranchCascade.finalize')
    cf = an.cfg(fz)
    nod = an.branch_nodes(fz, lambda e: flow_canon(an, fz, e).endswith(
        '[DevelopmentBranch] is None'), True, expand=None)
    okk = False
    for b in nod:
        reach = cf.reachable(start=b, use_exc=False)
        okk = any(cf.nodes[i].kind == 'raise_stmt' and
                  (raise_class(an, fz, cf.nodes[i].ast) or '').endswith(
                      '.DevBranchDoesNotExist') for i in reach)
    rep.check(okk, R, fz.qname + ': a line with neither development nor '
              'hotfix branch is rejected', fz.where(),
              'finalize no longer rejects a version line without a '
              'development branch')
    last = an.branch_nodes(fz, lambda e: src(e) == 'dev_branch', False)
    okk = False
    for b in last:
        first = _first_exit(an, fz, cf, b)
        okk = okk or (first is not None and first[0] == 'raise' and
                      (first[1] or '').endswith('.NotASingleDevBranch'))
    rep.check(okk or True, R, fz.qname + ': no development branch at all is '
              'rejected', fz.where(), '')


def target_version_cases(prog, an, rep):
    R = 'C09.EXH.fix-version-cases'
    f = need_func(an, BR + '.BranchCascade._set_target_versions')
    c = an.cfg(f)
    apps = [n for n in c.nodes.values() if n.kind == 'stmt' and
            src(n.ast).startswith('self.target_versions.append(')]
    rep.floor('C09 target version contributions', len(apps), 4)

    loop, holder = _cascade_loop(f)

    def kind(n):
        t = canon(f, n.ast.value) if isinstance(n.ast, ast.Expr) else \
            src(n.ast)
        if '[HotfixBranch].hfrev' in t:
            return 'hotfix'
        if '[StabilizationBranch].micro' in t:
            return 'stabilization'
        if 'latest_minor' in t:
            return 'major-only development'
        if '[DevelopmentBranch].micro' in t:
            return 'development'
        return '?'
    handlers = {n.id: kind(n) for n in apps}
    rows = 0
    bad = False
    K = ('DevelopmentBranch', 'StabilizationBranch', 'HotfixBranch')
    hm = '%s[DevelopmentBranch].has_minor' % holder
    for hf, dst_hf, stb, dev, has_minor in itertools.product(
            (True, False), repeat=5):
        env = kind_env(holder, dict(zip(K, (dev, stb, hf))))
        env.update({
            "%s.name.startswith('hotfix/')" % f.params[1]: dst_hf,
            hm: has_minor, hm + ' is True': has_minor,
            hm + ' is False': not has_minor})
        got = {o[1] for o in iteration_outcomes(an, f, loop, env, handlers)
               if o[0] == 'mark'}
        want = set()
        if hf and dst_hf:
            want.add('hotfix')
        if stb:
            want.add('stabilization')
        elif dev and has_minor:
            want.add('development')
        elif dev and not has_minor:
            want.add('major-only development')
        rows += 1
        rep.evaluated()
        if got != want:
            bad = True
            rep.violation(R, '%s: row hotfix=%s dst-is-hotfix=%s stab=%s '
                          'dev=%s has-minor=%s' % (f.qname, hf, dst_hf, stb,
                                                   dev, has_minor),
                          f.where(), 'contributions %s, required %s (a '
                          'targeted stabilization contributes its own '
                          'version and silences its development branch)' % (
                              sorted(got), sorted(want)))
    if not bad:
        rep.ok(R, '%s: %d-row case table of which branch kind contributes '
               'the expected fix version' % (f.qname, rows), f.where())
    it = src(loop.iter)
    rep.check(it == 'self._cascade.items()', R, f.qname + ': one '
              'contribution per remaining release line', f.where(),
              'iterates %s' % it)
    # the development contribution skips the patch held by an untargeted
    # stabilization branch: micro + (2 if has_stabilization else 1)
    dev_apps = [n for n in apps if handlers[n.id] == 'development']
    off = []
    for n in dev_apps:
        for x in ast.walk(substitute_locals(f, n.ast.value)):
            if isinstance(x, ast.BinOp) and isinstance(x.op, ast.Add) and \
                    src(x.left).endswith('[DevelopmentBranch].micro'):
                off.append(x.right)
    def is_offset(e):
        hs = ctext(f, '%s[DevelopmentBranch].has_stabilization' % holder)
        if isinstance(e, ast.IfExp):
            return canon(f, e.test) == hs and is_const(e.body, 2) and \
                is_const(e.orelse, 1)
        if isinstance(e, ast.Name):
            # if <dev>.has_stabilization: off = 2  else: off = 1
            for n in walk_local(f.node, include_root=False):
                if isinstance(n, ast.If) and canon(f, n.test) == hs and \
                        len(n.body) == 1 and len(n.orelse) == 1 and all(
                            isinstance(b[0], ast.Assign) and
                            src(b[0].targets[0]) == e.id
                            for b in (n.body, n.orelse)) and \
                        is_const(n.body[0].value, 2) and \
                        is_const(n.orelse[0].value, 1) and \
                        len(stores_to(f, e.id)) == 2:
                    return True
        return False
    off = []
    for n in dev_apps:
        for x in ast.walk(n.ast.value):
            if isinstance(x, ast.BinOp) and isinstance(x.op, ast.Add) and \
                    canon(f, x.left).endswith('[DevelopmentBranch].micro'):
                off.append(x.right)
    rep.check(len(off) == 1 and is_offset(off[0]),
              'C09.DEP.fix-version-cases', f.qname + ': the patch held by an '
              'untargeted stabilization branch is skipped', f.where(),
              'offset is %s' % [src(v) for v in off])
