"""C15 - reset never silently discards manual work and only touches its own
pull request (refusal-before-destruction and ownership clauses)."""
import ast
import itertools

from ..program import AnalysisError, walk_local, dotted
from ..analysis import Spec, src, const_value
from ..rules import (string_template, ctext, canon, cond_branches, substitute_locals, parent_map, template_sites, inside, before, GWF, EXC, mpt, need_func, stores_to, is_const, kw,
                     parent_map, raise_class, explicit_exits,
                     strip_wrappers)
from . import common
from .c02 import _site_publishes
from .c07 import _explore

CMD = GWF + '.commands'
I = GWF + '.integration'


def run(prog, an, rep):
    rep.explain(
        'C15: MPT/NEB (the lossy-reset refusal dominates every destructive '
        'statement of _reset; truth table of the refusal guard), DEP (the '
        'warning is set only for commits that survive the three filters, '
        'and always for those), KWC (force only from force_reset), ARG '
        '(removed branches = the pull request\'s own existing w/ branches; '
        'declined PRs = those of these branches), EXH (every exit answers '
        'the command).')
    rep.assume('the classification of concrete commit graphs (what the '
               'filters answer on a given history) is not evaluated')
    rep.run_rules(prog, an, [refusal_before_destruction, guard_table,
                             warning_conditions, force_wiring,
                             own_branches_only, exits, own_names])


def _destructive(prog, an, f):
    c = an.cfg(f)
    out = []
    decl = common.host_methods(prog, 'decline')
    for n in c.nodes.values():
        if n.kind not in ('stmt', 'return', 'test', 'iter'):
            continue
        why = None
        for x in ast.walk(n.ast):
            if not isinstance(x, ast.Call):
                continue
            if isinstance(x.func, ast.Attribute) and \
                    x.func.attr == 'remove' and \
                    'bert_e.lib.git.Branch.remove' in an.call_targets(f, x):
                why = 'deletes a branch'
            elif isinstance(x.func, ast.Attribute) and \
                    x.func.attr == 'decline':
                why = 'declines a pull request'
            elif _site_publishes(an, f, x):
                why = 'updates the remote'
            elif an.call_targets(f, x) & decl:
                why = 'declines a pull request'
        if why:
            out.append((n, why))
    return out


def refusal_before_destruction(prog, an, rep):
    R = 'C15.MPT.refusal-first'
    f = need_func(an, CMD + '._reset')
    c = an.cfg(f)
    force = 'force' if 'force' in f.params else None
    if force is None:
        rep.violation(R, f.qname + ': force parameter', f.where(),
                      '_reset has no force parameter: reset and force_reset '
                      'cannot differ')
        return
    lossy = None
    for n in c.nodes.values():
        if n.kind == 'raise_stmt' and isinstance(n.ast.exc, ast.Name) and \
                (raise_class(an, f, n.ast) or '').endswith(
                    '.LossyResetWarning'):
            lossy = n.ast.exc.id
    if lossy is None:
        rep.violation(R, f.qname + ': refusal', f.where(), '_reset never '
                      'raises the stored LossyResetWarning')
        return
    gates = an.branch_nodes(f, lambda e: isinstance(e, ast.Name) and
                            e.id == lossy, False) + \
        an.branch_nodes(f, lambda e: isinstance(e, ast.Name) and
                        e.id == force, True)
    dest = _destructive(prog, an, f)
    rep.floor('C15 destructive statements in _reset', len(dest), 3)
    for n, why in dest:
        rep.evaluated()
        ok, path = c.must_pass(gates, n.id)
        rep.check(ok and bool(gates), R, '%s: refusal decided before `%s`' %
                  (f.qname, src(n.ast)[:40].replace('\n', ' ')), f.where(n),
                  'a statement that %s can run before (or without) the '
                  'lossy-reset refusal' % why, path=c.describe_path(path))


def _names_of(f, e):
    """If e (possibly through a local) is [x.name for x in <list>] without a
    filter, the text of <list>."""
    if e is None:
        return None
    e = substitute_locals(f, e, depth=1) if isinstance(e, ast.Name) else e
    if isinstance(e, (ast.ListComp, ast.GeneratorExp)) and \
            len(e.generators) == 1 and not e.generators[0].ifs and \
            src(e.elt) == src(e.generators[0].target) + '.name':
        return src(e.generators[0].iter)
    return None


def guard_table(prog, an, rep):
    R = 'C15.EXH.refusal-guard'
    f = need_func(an, CMD + '._reset')
    c = an.cfg(f)
    lossy = None
    for n in c.nodes.values():
        if n.kind == 'raise_stmt' and isinstance(n.ast.exc, ast.Name):
            lossy = n.ast.exc.id
            rnode = n
    if lossy is None:
        return
    # start after the analysis loops: the first test on the warning variable
    tests = [t for t in an.test_nodes(
        f, lambda e: isinstance(e, ast.Name) and e.id == lossy)]
    if len(tests) != 1:
        raise AnalysisError('anchor-missing single test on %s' % lossy)
    # the decision starts at the first atom of the `if` that holds the test
    # on the warning (the operands of its condition may come in any order)
    pm_ = parent_map(f.node)
    top = tests[0].ast
    while top in pm_ and not isinstance(pm_[top], ast.stmt):
        top = pm_[top]
    ids = [i for x in ast.walk(top) for i in c.copies.get(id(x), [])
           if c.nodes[i].kind == 'test']
    first_atom = min(ids) if ids else tests[0].id
    dest = {n.id for n, _ in _destructive(prog, an, f)}
    fparam = 'force' if 'force' in f.params else f.params[-1]
    for has, force in itertools.product((True, False), repeat=2):
        env = {lossy: True if has else None, fparam: force}
        got = _explore(an, f, c, first_atom, env, dest)
        rep.evaluated()
        if has and not force:
            ok = got == {('raise', EXC + '.LossyResetWarning')}
        else:
            ok = got == {('handler',)}
        rep.check(ok, R, '%s: manual work=%s force=%s -> %s' % (
            f.qname, has, force, 'refuse' if has and not force else
            'delete'), f.where(tests[0]), 'with manual work=%s and '
            'force=%s _reset does %s' % (has, force,
                                         sorted(map(str, got))))


def _flag_form(an, f, c, pm, setst, rep, R):
    """The statement that decides "this commit is manual work".  Either the
    warning is set right there (inside the commit loop), or a boolean local
    is raised there and the warning is set under `if <flag>:` after the
    commit loop.  In the second form the flag may only be raised inside the
    loop -- never recomputed or cleared by a later commit."""
    n_ = setst
    guard = None
    while n_ in pm:
        up = pm[n_]
        if isinstance(up, ast.For):
            return [setst]                  # set inside a loop: plain form
        if isinstance(up, ast.If) and isinstance(up.test, ast.Name) and \
                up.test.id not in f.params and n_ in up.body:
            guard = up
            break
        n_ = up
    if guard is None:
        return [setst]
    flag = guard.test.id
    stores = stores_to(f, flag)
    raised = [st for st, v in stores if is_const(v, True)]
    lowered = [st for st, v in stores if is_const(v, False)]
    other = [(st, v) for st, v in stores
             if not (is_const(v, True) or is_const(v, False))]
    for st, v in other:
        if isinstance(v, ast.BoolOp) and isinstance(v.op, ast.Or) and any(
                isinstance(x, ast.Name) and x.id == flag for x in v.values):
            raise AnalysisError('C15: the flag %r is accumulated with `or`; '
                                'this form is not analysed' % flag)
    rep.evaluated()
    rep.check(not other, R, f.qname + ': the manual-work flag is only '
              'raised by a commit, never recomputed', f.where(
                  other[0][0] if other else guard),
              'the flag %r is assigned %s for every commit: a later commit '
              'that passes a filter clears what an earlier commit raised '
              '(manual work discarded without a warning)' % (
                  flag, [src(v) if v is not None else '?'
                         for _, v in other][:2]))
    if not raised:
        raise AnalysisError('C15: no statement raises the flag %r' % flag)
    loop = raised[0]
    while loop in pm and not isinstance(loop, ast.For):
        loop = pm[loop]
    rep.check(all(inside(loop, st) for st in raised), R, f.qname +
              ': the flag is raised in the commit loop only',
              f.where(guard), '%r is set to True outside the commit loop'
              % flag)
    rep.check(isinstance(loop, ast.For) and not inside(loop, guard) and
              before(f, loop, guard) and all(
                  not inside(loop, st) and before(f, st, loop)
                  for st in lowered) and bool(lowered), R, f.qname +
              ': the flag is lowered before the commit loop and read after '
              'it', f.where(guard), 'the flag %r is cleared inside the '
              'commit loop, or read before it ends' % flag)
    # lowered per integration branch => read per integration branch
    for st in lowered:
        up = st
        while up in pm:
            up = pm[up]
            if isinstance(up, ast.For):
                rep.check(inside(up, guard), R, f.qname + ': the flag is '
                          'read in the iteration that lowered it',
                          f.where(st), 'the flag %r is cleared for each '
                          'integration branch but read after the loop: only '
                          'the last branch counts' % flag)
    # the guard is unconditional after the loop
    up = pm.get(guard)
    rep.check(isinstance(up, (ast.For, ast.FunctionDef)), R, f.qname +
              ': the flag is read unconditionally after the commit loop',
              f.where(guard), '`if %s:` is itself conditional' % flag)
    return [st for st in raised if inside(loop, st)]


def warning_conditions(prog, an, rep):
    R = 'C15.DEP.lossy-detection'
    f = need_func(an, CMD + '._reset')
    c = an.cfg(f)
    # the warning variable: the local that is raised
    lossy = None
    for n in c.nodes.values():
        if n.kind == 'raise_stmt' and isinstance(n.ast.exc, ast.Name):
            lossy = n.ast.exc.id
    stores = stores_to(f, lossy) if lossy else []
    inits = [st for st, v in stores if v is not None and is_const(v, None)]
    sets = [st for st, v in stores if isinstance(v, ast.Call) and
            (prog.callee(f, v)[1] or '').endswith('.LossyResetWarning')]
    rep.evaluated()
    rep.check(len(inits) == 1 and len(sets) == 1 and len(stores) == 2, R,
              f.qname + ': the warning starts empty and is set at one '
              'place', f.where(), 'bindings of the warning: %s' %
              [src(st)[:50] for st, _ in stores])
    if len(sets) != 1:
        return
    pm = parent_map(f.node)
    sites = _flag_form(an, f, c, pm, sets[0], rep, R)
    site = sites[0]
    inner = site
    while inner in pm and not isinstance(inner, ast.For):
        inner = pm[inner]
    outer = inner
    while outer in pm:
        outer = pm[outer]
        if isinstance(outer, ast.For):
            break
    wb_ok = isinstance(outer, ast.For) and any(
        isinstance(strip_wrappers(v), ast.Call) and an.call_matches(
            f, strip_wrappers(v), Spec.func(I + '.get_integration_branches'))
        for _, v in stores_to(f, src(outer.iter)) if v is not None)
    rep.check(isinstance(inner, ast.For) and isinstance(outer, ast.For) and
              wb_ok, R, f.qname + ': every commit '
              'of every integration branch is examined', f.where(site),
              'the warning is not set inside loops over wbranches / their '
              'commits')
    if not isinstance(inner, ast.For):
        return
    # no integration branch is left out: from the start of an iteration of
    # the outer loop, the commit loop is always reached
    if isinstance(outer, ast.For):
        ohead = c.stmt_node[id(outer)]
        inner_ids = set(c.copies.get(id(inner), []))
        starts = [s_ for s_ in c.succ[ohead] if c.nodes[s_].kind == 'true']
        skip = None
        for s0 in starts:
            for tgt in (ohead, c.exit, c.raise_exit):
                p_ = c.path(s0, tgt, removed=inner_ids, use_exc=False)
                if p_ is not None and skip is None:
                    skip = p_
        rep.evaluated()
        rep.check(skip is None, R, f.qname + ': the commits of every '
                  'integration branch are examined', f.where(outer),
                  'an integration branch can be skipped (or the analysis '
                  'left) before its commits are examined: manual work on it '
                  'is discarded without a warning',
                  path=c.describe_path(skip))
    rev = inner.target.id
    B = outer.target.id
    # what the inner loop ranges over: commits of the branch not on its
    # destination
    itv = strip_wrappers(substitute_locals(f, inner.iter),
                         names=('reversed', 'list', 'tuple'))
    rep.check(isinstance(itv, ast.Call) and
              isinstance(itv.func, ast.Attribute) and
              itv.func.attr == 'get_commit_diff' and
              canon(f, itv.func.value) == ctext(f, B) and
              [canon(f, a) for a in itv.args] ==
              [ctext(f, B + '.dst_branch')], R,
              f.qname + ': examines the commits of the integration branch '
              'that are not on its destination', f.where(inner),
              'commits come from %s' % src(inner.iter))
    # the set of commits known to come from the source branch
    feat = None
    for st in walk_local(outer, include_root=False):
        if isinstance(st, ast.Assign) and len(st.targets) == 1 and \
                isinstance(st.targets[0], ast.Name) and \
                canon(f, st.value) == ctext(
                    f, 'set(%s.src_branch.get_commit_diff(%s.dst_branch))'
                    % (B, B)):
            feat = st.targets[0].id
    rep.check(feat is not None, R, f.qname + ': feature set = commits of '
              'the source branch not on the destination', f.where(outer),
              'no set(<branch>.src_branch.get_commit_diff(<branch>.'
              'dst_branch)) is built per integration branch')
    if feat is None:
        return
    par = '%s.parents[0]' % rev
    T = {
        'in-feature': '%s in %s' % (rev, feat),
        'robot': '%s.author == %s.settings.robot' % (rev, f.params[0]),
        'single-parent': 'len(%s.parents) == 1' % rev,
        'parent-on-dst': '%s.dst_branch.includes_commit(%s)' % (B, par),
        'parent-in-feature': '%s in %s' % (par, feat),
    }
    filters = {
        'commit of the current source branch':
            cond_branches(an, f, T['in-feature'], False),
        'robot commit': cond_branches(an, f, T['robot'], False),
        'made on top of the integration branch (or a merge)':
            cond_branches(an, f, T['single-parent'], False) +
            cond_branches(an, f, T['parent-on-dst'], False),
    }
    for label, g in itertools.product(filters, sites):
        label, g, setn = label, filters[label], c.stmt_node[id(g)]
        rep.evaluated()
        ok, path = c.must_pass(g, setn)
        rep.check(ok and bool(g), R, '%s: warning only for a commit that is '
                  'not a %s' % (f.qname, label) if 'made' not in label else
                  '%s: warning only for a commit %s' % (f.qname, label),
                  f.where(sets[0]), 'the warning can be set without the '
                  'filter "%s"' % label, path=c.describe_path(path))
    # completeness: an iteration that does not raise the warning went
    # through one of the three documented filters
    head = c.stmt_node[id(inner)]
    tb = [s for s in c.succ[head] if c.nodes[s].kind == 'true']
    done = {c.done_node[id(st)] for st in sites}
    rep.check(all(inside(inner, st) for st in sites), R, f.qname +
              ': one commit loop', f.where(inner), 'manual work is '
              'recognised in several loops')
    skip_gates = cond_branches(an, f, T['in-feature'], True) + \
        cond_branches(an, f, T['robot'], True) + \
        cond_branches(an, f, T['parent-in-feature'], True) + \
        cond_branches(an, f, T['parent-on-dst'], True)
    ok = True
    path = None
    for s0 in tb:
        p_ = c.path(s0, head, removed=set(skip_gates) | done, use_exc=False)
        if p_ is not None:
            ok, path = False, p_
    rep.evaluated()
    rep.check(ok and bool(tb), R, f.qname + ': a commit that passes no '
              'filter always sets the warning', f.where(inner), 'a commit '
              'can fall through the filters without setting the warning '
              '(manual work silently discarded)', path=c.describe_path(path))
    rep.floor('C15 skip filters in the commit loop', len(skip_gates), 4)
    for st in inits:
        n_ = st
        is_in = False
        while n_ in pm:
            n_ = pm[n_]
            if isinstance(n_, (ast.For, ast.While)):
                is_in = True
        rep.check(not is_in, R, f.qname + ': the warning is never cleared '
                  'once set', f.where(st), 'the warning is reset inside a '
                  'loop: manual work on an earlier integration branch is '
                  'forgotten')
    # the "once on the feature branch" filter records the commit
    adds = [n for n in c.nodes.values() if n.kind == 'stmt' and
            src(n.ast) == '%s.add(%s)' % (feat, rev)]
    rep.check(len(adds) >= 1, R, f.qname + ': the feature set is extended '
              'by earlier versions of the source branch', f.where(),
              '%d statements add the commit to the feature set' % len(adds))


def force_wiring(prog, an, rep):
    """What `force` is when _reset runs for each of the two commands.  The
    reactor calls handler(job, *words): the words of the comment must not
    be able to reach `force`."""
    R = 'C15.KWC.force'
    target = need_func(an, CMD + '._reset')
    a = target.node.args
    pos = [x.arg for x in a.posonlyargs + a.args]
    pos_defaults = dict(zip(pos[len(pos) - len(a.defaults):], a.defaults))
    kwonly = {x.arg: d for x, d in zip(a.kwonlyargs, a.kw_defaults)}

    def through_words():
        """force when the reactor calls _reset(job, *words) itself."""
        if 'force' in kwonly:
            d = kwonly['force']
            return d.value if isinstance(d, ast.Constant) else None
        if 'force' in pos:
            if pos.index('force') >= 1:
                return None     # the first word of the comment lands there
            return None
        return None

    def at_call(call):
        """force for one call of _reset."""
        v = kw(call, 'force')
        if v is not None:
            return v.value if isinstance(v, ast.Constant) else None
        if any(k.arg is None for k in call.keywords):
            return None
        if 'force' in pos:
            i = pos.index('force')
            if any(isinstance(x, ast.Starred) for x in call.args[:i + 1]):
                return None     # *words may reach the parameter
            if len(call.args) > i:
                x = call.args[i]
                return x.value if isinstance(x, ast.Constant) else None
            d = pos_defaults.get('force')
            return d.value if isinstance(d, ast.Constant) else None
        d = kwonly.get('force')
        return d.value if isinstance(d, ast.Constant) else None
    rep.check('force' in pos or 'force' in kwonly, R, target.qname +
              ': takes a force flag', target.where(), '_reset has no force '
              'parameter')
    _, cmds = common.reactor_registry(prog, an)
    for key, want in (('reset', False), ('force_reset', True)):
        cinfo = cmds.get(key)
        h = (cinfo or {}).get('handler')
        rep.evaluated()
        if h is None:
            rep.violation(R, 'command %s is registered' % key,
                          (cinfo or {}).get('where'), 'command %s is %s' % (
                              key, 'missing' if cinfo is None else
                              'bound to a handler that cannot be resolved'))
            continue
        if h.qname == target.qname:
            got = [through_words()]
        else:
            calls = an.direct_calls(h, Spec.func(target.qname))
            got = [at_call(c_) for c_ in calls] or ['no call of _reset']
        rep.check(got == [want], R, 'command %s runs _reset with force=%s' %
                  (key, want), (cinfo or {}).get('where'),
                  'command %s (handler %s) runs _reset with force=%s, '
                  'required %s: %s' % (
                      key, h.qname, got, want,
                      'only force_reset may discard manual work' if not want
                      else 'force_reset must be able to discard it'))
    # nobody else resets
    for f in prog.all_funcs():
        for call in an.direct_calls(f, Spec.func(target.qname)):
            rep.evaluated()
            handlers = {(cmds.get(k) or {}).get('handler')
                        for k in ('reset', 'force_reset')}
            rep.check(f in handlers, R, '%s is a reset command handler' %
                      f.qname, f.where(call), '%s calls _reset outside the '
                      'two commands' % f.qname)


def own_branches_only(prog, an, rep):
    R = 'C15.ARG.own-branches'
    f = need_func(an, CMD + '._reset')
    # the local that holds this pull request's integration branches
    wb_var, wb = None, []
    for st in walk_local(f.node, include_root=False):
        if isinstance(st, ast.Assign) and len(st.targets) == 1 and \
                isinstance(st.targets[0], ast.Name):
            v = strip_wrappers(st.value)
            if isinstance(v, ast.Call) and an.call_matches(
                    f, v, Spec.func(I + '.get_integration_branches')):
                wb_var = st.targets[0].id
    if wb_var is not None:
        wb = [v for _, v in stores_to(f, wb_var) if v is not None]
    ok = len(wb) == 1 and isinstance(strip_wrappers(wb[0]), ast.Call) and \
        [src(a) for a in strip_wrappers(wb[0]).args] == [f.params[0]]
    rep.evaluated()
    rep.check(ok, R, f.qname + ': wbranches = list('
              'get_integration_branches(job))', f.where(),
              'wbranches is %s' % [src(v) for v in wb])
    pm = parent_map(f.node)
    n_rm = 0
    for x in prog.calls_in(f):
        if isinstance(x.func, ast.Attribute) and x.func.attr == 'remove' \
                and 'bert_e.lib.git.Branch.remove' in an.call_targets(f, x):
            n_rm += 1
            loop = x
            while loop in pm and not isinstance(loop, ast.For):
                loop = pm[loop]
            rep.evaluated()
            ok = isinstance(loop, ast.For) and \
                src(loop.iter) == wb_var and \
                isinstance(loop.target, ast.Name) and \
                src(x.func.value) == loop.target.id
            rep.check(ok, R, f.qname + ': removes exactly the pull '
                      'request\'s integration branches', f.where(x),
                      '%s is removed (not an element of wbranches)' %
                      src(x.func.value))
            rep.check(common.do_push_at(x, 'remove') is False,
                      'C15.KWC.do-push', f.qname + ': removal is local, '
                      'published by the single push', f.where(x),
                      'remove(do_push=...) publishes each deletion on its '
                      'own')
    rep.floor('C15 branch removals in _reset', n_rm, 1)
    decl = [x for x in prog.calls_in(f)
            if isinstance(x.func, ast.Attribute) and
            x.func.attr == 'decline']
    rep.floor('C15 decline calls in _reset', len(decl), 1)
    for x in decl:
        loop = x
        while loop in pm and not isinstance(loop, ast.For):
            loop = pm[loop]
        lst = src(loop.iter) if isinstance(loop, ast.For) else None
        vs = [v for _, v in stores_to(f, lst) if v is not None] if lst \
            else []
        rep.evaluated()
        ok = len(vs) == 1 and isinstance(vs[0], ast.Call) and \
            isinstance(vs[0].func, ast.Attribute) and \
            vs[0].func.attr == 'get_pull_requests' and \
            src(vs[0].func.value).endswith('project_repo') and \
            _names_of(f, kw(vs[0], 'src_branch')) == wb_var and \
            len(vs[0].keywords) == 1 and not vs[0].args
        rep.check(ok, R, f.qname + ': declines exactly the pull requests of '
                  'its own integration branches', f.where(x),
                  'declined pull requests come from %s' %
                  [src(v) for v in vs])
    # the host query is made with a NON-EMPTY list of branch names: the
    # GitHub implementation treats an empty src_branch filter as "no
    # filter" and would return every open pull request
    c = an.cfg(f)
    nonempty = an.branch_nodes(f, lambda e: src(e) == wb_var, True)
    qn = [n for n in c.nodes.values() if n.kind == 'stmt' and any(
        isinstance(x, ast.Call) and isinstance(x.func, ast.Attribute) and
        x.func.attr == 'get_pull_requests' for x in ast.walk(n.ast))]
    for n in qn:
        rep.evaluated()
        ok, path = c.must_pass(nonempty, n.id)
        rep.check(ok and bool(nonempty), R, f.qname + ': pull requests are '
                  'looked up only for a non-empty list of integration '
                  'branches', f.where(n), 'get_pull_requests can be called '
                  'with src_branch=[] (no filter on GitHub): every open '
                  'pull request of the repository would be declined',
                  path=c.describe_path(path))
    pushes = [x for x in an.direct_calls(
        f, Spec.func('bert_e.workflow.git_utils.push'))]
    rep.check(len(pushes) == 1 and not (len(pushes[0].args) > 1 or
                                        kw(pushes[0], 'branches')), R,
              f.qname + ': one publication of the deletions', f.where(),
              '%d push calls' % len(pushes))


def exits(prog, an, rep):
    R = 'C15.EXH.exits'
    f = need_func(an, CMD + '._reset')
    allowed = {EXC + '.ResetComplete', EXC + '.LossyResetWarning'}
    n = 0
    for kind, node, info in explicit_exits(an, f):
        n += 1
        rep.evaluated()
        rep.check(kind == 'raise' and info in allowed, R,
                  '%s: exit at L%d raises %s' % (
                      f.qname, node.lineno,
                      (info or kind).rpartition('.')[2]), f.where(node),
                  '_reset can end with %s: the command is not answered and '
                  'will run again' % (info or kind))
    rep.floor('C15 exits of _reset', n, 2)
    for name in allowed:
        k = prog.cls(name)
        rep.check(prog.is_subclass(k, EXC + '.TemplateException'), R,
                  k.name + ' is a TemplateException', k.where(),
                  '%s posts nothing' % k.name)


def own_names(prog, an, rep):
    R = 'C15.ARG.own-names'
    f = need_func(an, I + '.get_integration_branches')
    c = an.cfg(f)
    loops = [n for n in walk_local(f.node, include_root=False)
             if isinstance(n, ast.For)]
    ok = len(loops) == 1 and \
        src(loops[0].iter).endswith('cascade.dst_branches')
    rep.evaluated()
    rep.check(ok, R, f.qname + ': ranges over the cascade of this pull '
              'request', f.where(), 'iterates %s' %
              [src(l.iter) for l in loops])
    if not ok:
        return
    dv = loops[0].target.id
    fm = template_sites(f)
    sv = [canon(f, a) for a in fm[0][2]] if len(fm) == 1 else []
    ok = len(fm) == 1 and fm[0][1] == 'w/{}/{}' and \
        sv == [ctext(f, dv + '.version'), f.params[0] + '.git.src_branch']
    rep.evaluated()
    rep.check(ok, R, f.qname + ': names are w/<target version>/<this '
              'source branch>', f.where(), 'names built by %s with src=%s' %
              ([src(x[0]) for x in fm], sv))
    ex = an.branch_nodes(f, lambda e: isinstance(e, ast.Call) and
                         isinstance(e.func, ast.Attribute) and
                         e.func.attr == 'exists', True)
    ys = [n for n in c.nodes.values() if n.kind == 'stmt' and
          isinstance(n.ast, ast.Expr) and
          isinstance(n.ast.value, ast.Yield)]
    for y in ys:
        ok, path = c.must_pass(ex, y.id)
        rep.evaluated()
        rep.check(ok and bool(ex), R, f.qname + ': only existing branches '
                  'are yielded', f.where(y), 'a non-existing branch is '
                  'yielded', path=c.describe_path(path))
    bf = [x for x in prog.calls_in(f)
          if an.call_matches(f, x, Spec.func(GWF +
                                             '.branches.branch_factory'))]
    # (the name: the expression the w/ template sits in, through any local)
    tmpl = string_template(substitute_locals(f, bf[0].args[1])) \
        if len(bf) == 1 and len(bf[0].args) > 1 else None
    rep.check(len(bf) == 1 and tmpl is not None and tmpl[0] == 'w/{}/{}', R,
              f.qname + ': the branch object is built from that name',
              f.where(), 'branch_factory(%s)' % [src(x) for x in bf])
