"""C07 - only the right people can switch options on through comments."""
import ast
import itertools

from ..program import AnalysisError, walk_local, dotted
from ..analysis import Spec, src, const_value
from ..cfg import node_contains_call
from ..rules import (substitute_locals, GWF, EXC, mpt, need_func, stores_to, raise_class,
                     norm_bool, parent_map, kw, is_const, outcomes,
                     eval_atom, eval_cond, UNKNOWN)
from . import common
from .c12 import _first_exit

RE = 'bert_e.reactor'
TEMPLATE = EXC + '.TemplateException'


def run(prog, an, rep):
    rep.explain(
        'C07: REG (option/command registry flags), EXH (truth table of the '
        'reactor guards by partial evaluation of handle_options / '
        'handle_commands over all 64 / 16 assignments of the guard atoms), '
        'MPT (handlers only for text addressed to the robot), LNG (slash '
        'syntax first character), ARG (privileged / authored flags computed '
        'from comment author, admins, PR author), MPT (errors converted to '
        'blocking template exceptions), WMC (writers of option state), SIB '
        '(command-line defaults keyed by their own option).')
    rep.assume('what the tokeniser extracts from a concrete comment text '
               '(separators, key=arg, surrounding text) is not evaluated')
    rep.run_rules(prog, an, [registry, reactor_guards, addressed_to_robot,
                             flags_from_author, error_conversion,
                             option_writers, cmdline_defaults, doc_note])


def doc_note(prog, an, rep):
    """Cross-reference only (never armed): the user documentation's
    "requires admin rights?" column against the registry."""
    import os
    import re as _re
    path = os.path.join(rep.root, 'bert_e', 'docs', 'USER_DOC.md')
    try:
        text = open(path, encoding='utf-8').read()
    except OSError:
        return
    opts, _ = common.reactor_registry(prog, an)
    diff = []
    for line in text.splitlines():
        m = _re.match(r'^\|\s*(\w+)\s*\|[^|]*\|\s*(yes|no)\s*\|\s*(yes|no)',
                      line)
        if m and m.group(1) in opts:
            o = opts[m.group(1)]
            if (m.group(2) == 'yes') != o['privileged']:
                diff.append('%s (documented %s, registered privileged=%s)' %
                            (m.group(1), m.group(2), o['privileged']))
    if diff:
        rep.note('N-C07-1 (informational, not armed): USER_DOC.md and the '
                 'option registry disagree on admin rights for: %s. The '
                 'property speaks only of bypass_* and approve.' %
                 '; '.join(diff))


def _record_fields(prog, m, tname, seen=()):
    """Field names, in constructor order, of a record type of module m:
    NAME = namedtuple('NAME', [...]) / 'a b c', a typing.NamedTuple class or
    a @dataclass class (the fields of its dataclass bases first)."""
    v = m.consts.get(tname)
    if isinstance(v, ast.Call) and src(v.func).endswith('namedtuple') and \
            len(v.args) >= 2:
        try:
            f_ = const_value(v.args[1])
        except AnalysisError:
            return None
        if isinstance(f_, str):
            f_ = f_.replace(',', ' ').split()
        return list(f_)
    k = prog.classes.get(m.name + '.' + tname)
    if k is None or tname in seen:
        return None
    own = [st.target.id for st in k.node.body
           if isinstance(st, ast.AnnAssign) and
           isinstance(st.target, ast.Name)]
    bases = [src(b) for b in k.node.bases]
    if any(b.endswith('NamedTuple') for b in bases):
        return own
    if any('dataclass' in src(d) for d in k.node.decorator_list):
        out = []
        for b in bases:
            inherited = _record_fields(prog, m, b, seen + (tname,))
            if inherited is None:
                return None
            out += [x for x in inherited if x not in out]
        return out + [x for x in own if x not in out]
    return None


def registry(prog, an, rep):
    R = 'C07.REG.flags'
    opts, cmds = common.reactor_registry(prog, an)
    rep.floor('C07 registered options', len(opts), 14)
    rep.floor('C07 registered commands', len(cmds), 7)
    for key, o in sorted(opts.items()):
        rep.evaluated()
        if key.startswith('bypass_'):
            rep.check(o['privileged'], R, 'option %s is privileged' % key,
                      o['where'], 'bypass option %s is registered without '
                      'privileged=True: anybody can switch it on' % key)
        if key == 'approve':
            rep.check(o['authored'], R, 'option approve is author-only',
                      o['where'], 'approve lost authored=True')
        else:
            rep.check(not o['authored'], R, 'option %s is not author-only' %
                      key, o['where'], '%s became author-only' % key)
    for need in ('approve', 'wait', 'unanimity', 'after_pull_request'):
        rep.check(need in opts, R, 'option %s registered' % need, None,
                  'option %s missing' % need)
    for key in common.bypass_list(prog):
        rep.evaluated()
        o = opts.get(key)
        rep.check(o is not None and o['privileged'], R,
                  'per-author bypass %s is a registered privileged option' %
                  key, (o or {}).get('where'),
                  'BYPASS_LIST key %s is %s' % (
                      key, 'unregistered' if o is None else 'unprivileged'))
    # Option / Command tuples: field order agrees between definition and
    # the constructor calls inside the Reactor
    m = prog.by_name[RE]
    # the reactor tells an option from a command by its type: neither type
    # is a kind of the other
    ko, kc = (prog.classes.get(RE + '.' + t) for t in ('Option', 'Command'))
    rep.evaluated()
    rep.check(ko is None or kc is None or not (
        prog.is_subclass(ko, kc.qname) or prog.is_subclass(kc, ko.qname)), R,
        'Option and Command are unrelated types', m.path,
        'an Option is a Command (or the reverse): isinstance() no longer '
        'tells them apart and the reactor runs one as the other')
    for tname in ('Option', 'Command'):
        fields = _record_fields(prog, m, tname)
        need = {'handler', 'default', 'help', 'privileged', 'authored'} \
            if tname == 'Option' else {'handler', 'help', 'privileged',
                                       'authored'}
        rep.check(fields is not None and set(fields) == need, R,
                  'reactor.%s fields' % tname,
                  m.path, '%s fields are %s' % (tname, fields))
        want = fields or []
        k = prog.cls(RE + '.Reactor')
        for meth in k.methods.values():
            for call in prog.calls_in(meth):
                if isinstance(call.func, ast.Name) and \
                        call.func.id == tname:
                    rep.evaluated()
                    # positional arguments fill the fields in order,
                    # keyword arguments name their field
                    kws = {k.arg: k.value for k in call.keywords}
                    vals = dict(zip(want, call.args))
                    vals.update(kws)
                    names = [src(substitute_locals(meth, vals[w]))
                             if w in vals else '?' for w in want]
                    # the flags (and the default) are the registration's
                    # own parameters of the same name; the help text comes
                    # from help_ or the docstring; the handler is a function
                    ok = set(kws) <= set(want[len(call.args):]) and \
                        len(vals) == len(want)
                    for w, n in zip(want, names):
                        if w in ('default', 'privileged', 'authored'):
                            ok = ok and n == w and w in meth.params
                        elif w == 'help':
                            ok = ok and ('help_' in n or '__doc__' in n) \
                                and not any(x in n for x in (
                                    'privileged', 'authored'))
                        else:
                            ok = ok and n.isidentifier() and n not in (
                                'default', 'privileged', 'authored',
                                'help_')
                    rep.check(ok, R, '%s: %s(...) argument order' % (
                        meth.qname, tname), meth.where(call),
                        '%s built with %s, fields are %s (a swapped flag '
                        'silently changes who may use the keyword)' % (
                            tname, names, want))


def _guard_table(prog, an, rep, f, kind):
    """Exhaustive truth table of the reactor's per-keyword guards."""
    R = 'C07.EXH.reactor-guards'
    c = an.cfg(f)
    cls_name = 'Option' if kind == 'option' else 'Command'
    # the dispatched object
    var = None
    for n in walk_local(f.node, include_root=False):
        if isinstance(n, ast.Assign) and isinstance(n.value, ast.Call) and \
                src(n.value.func) == 'self.dispatch' and \
                isinstance(n.targets[0], ast.Name):
            var, disp = n.targets[0].id, n
    if var is None:
        raise AnalysisError('anchor-missing self.dispatch(...) in ' +
                            f.qname)
    # position of the keyword in the comment: the counter of the
    # enumerate() loop that holds the dispatch, whatever it is called
    idx = None
    for lp in walk_local(f.node, include_root=False):
        if isinstance(lp, ast.For) and any(x is disp for x in ast.walk(lp)) \
                and isinstance(lp.iter, ast.Call) and \
                src(lp.iter.func) == 'enumerate' and \
                isinstance(lp.target, ast.Tuple) and \
                isinstance(lp.target.elts[0], ast.Name):
            idx = lp.target.elts[0].id
    params = f.params
    priv = params[4] if len(params) > 4 else None
    auth = params[5] if kind == 'option' and len(params) > 5 else None
    hcalls = [n for n in c.nodes.values() if n.kind == 'stmt' and any(
        isinstance(x, ast.Call) and src(x.func) == var + '.handler'
        for x in ast.walk(n.ast))]
    if not hcalls:
        rep.violation(R, f.qname + ': handler call', f.where(),
                      'the %s handler is never called' % kind)
        return
    rep.check(len(stores_to(f, var)) == 1, 'C07.ARG.dispatch', f.qname +
              ': guards and handler concern the dispatched keyword',
              f.where(disp), '%s is re-bound between the guards and the '
              'handler call' % var)
    start = c.done_node[id(disp)]
    atoms = [var + ' is None', 'isinstance(%s, %s)' % (var, cls_name),
             var + '.privileged', priv]
    if auth:
        atoms += [var + '.authored', auth]
    exc = {'none': RE + '.NotFound', 'priv': RE + '.NotPrivileged',
           'auth': RE + '.NotAuthored'}
    n_rows = 0
    for vals in itertools.product((True, False), repeat=len(atoms)):
        env = dict(zip(atoms, vals))
        env[idx or 'idx'] = 1   # not the first keyword: a command name is an error
        n_rows += 1
        rep.evaluated()
        got = _explore(an, f, c, start, env, {h.id for h in hcalls})
        is_none = env[atoms[0]]
        is_inst = env[atoms[1]]
        if is_none and is_inst:
            continue        # None is not an instance of anything
        if is_none:
            want = {('raise', exc['none'])}
        elif not is_inst:
            want = {('raise', exc['none'])} if kind == 'option' \
                else {('return',)}
        elif env[var + '.privileged'] and not env[priv]:
            want = {('raise', exc['priv'])}
        elif auth and env[var + '.authored'] and not env[auth]:
            want = {('raise', exc['auth'])}
        else:
            want = {('handler',)}
        if got != want:
            rep.violation(R, '%s: guard table row %s' % (f.qname, {
                k: v for k, v in env.items() if k != (idx or 'idx')}), f.where(disp),
                'with %s the reactor does %s, required %s' % (
                    {k: v for k, v in env.items() if k != (idx or 'idx')},
                    sorted(map(str, got)), sorted(map(str, want))))
    if not any(v.rule == R and f.qname in v.construct
               for v in rep.violations):
        rep.ok(R, '%s: %d-row guard truth table (None / wrong kind / '
               'privileged / authored)' % (f.qname, n_rows), f.where(disp))
    # first keyword that is a command (option parser) is ignored silently
    if kind == 'option':
        env = dict(zip(atoms, (False, False, False, False, False, False)))
        env[idx or 'idx'] = 0
        got = _explore(an, f, c, start, env, {h.id for h in hcalls})
        rep.check(got == {('return',)}, R, f.qname + ': a leading command '
                  'name is left to the command parser', f.where(disp),
                  'leading non-option keyword leads to %s' %
                  sorted(map(str, got)))


def _explore(an, f, c, start, env, handler_ids):
    out = set()
    seen = set()
    stack = [start]
    while stack:
        i = stack.pop()
        if i in seen:
            continue
        seen.add(i)
        n = c.nodes[i]
        if i in handler_ids:
            out.add(('handler',))
            continue
        if n.kind == 'loop':
            out.add(('next-keyword',))
            continue
        if n.kind == 'test':
            v = eval_cond(f, n.ast, env)
            if v is UNKNOWN:
                stack.extend(s for s in c.succ[i]
                             if (i, s) not in c.exc_edges)
            else:
                stack.extend(c.branch(n, bool(v)))
            continue
        if n.kind == 'raise_stmt':
            out.add(('raise', raise_class(an, f, n.ast)))
            continue
        if n.kind == 'return' or i == c.exit:
            out.add(('return',))
            continue
        for s in c.succ[i]:
            if (i, s) not in c.exc_edges:
                stack.append(s)
    return out


def reactor_guards(prog, an, rep):
    _guard_table(prog, an, rep, need_func(an, RE + '.Reactor.handle_options'),
                 'option')
    _guard_table(prog, an, rep,
                 need_func(an, RE + '.Reactor.handle_commands'), 'command')


def addressed_to_robot(prog, an, rep):
    from ..regexlang import Lang
    R = 'C07.MPT.addressed'
    for q in (RE + '.Reactor.handle_options', RE + '.Reactor.handle_commands'):
        f = need_func(an, q)
        c = an.cfg(f)
        prefix = f.params[3]
        sw = an.branch_nodes(
            f, lambda e: isinstance(e, ast.Call) and
            isinstance(e.func, ast.Attribute) and
            e.func.attr == 'startswith' and e.args and
            isinstance(e.args[0], ast.Name) and e.args[0].id == prefix, True)
        rm_tests = [t for t in an.test_nodes(
            f, lambda e: _regex_match(f, e) is not None)]
        rm = []
        for t in rm_tests:
            rm += c.branch(t, True)
            pat_e, subject = _regex_match(f, t.matched)
            pat = const_value(pat_e)
            lang = Lang.from_regex(pat)
            fc = lang.first_chars()
            rep.evaluated()
            rep.check(fc == {'/'}, 'C07.LNG.slash-syntax', '%s: slash syntax '
                      'regex %r starts with "/"' % (f.qname, pat),
                      f.where(t), 'the prefix-less syntax accepts text '
                      'starting with %s' % sorted(fc)[:8], detail=pat)
            rep.check(subject is not None and
                      _same_text(f, subject, sw_subject(an, f, prefix)),
                      'C07.ARG.slash-syntax', f.qname + ': slash regex is '
                      'matched against the stripped comment', f.where(t),
                      're.match is applied to %s' % (
                          subject is not None and src(subject)))
        rep.floor('C07 addressed-to-robot tests in ' + f.name,
                  len(sw) + len(rm), 2)
        hcalls = [n for n in c.nodes.values() if n.kind == 'stmt' and any(
            isinstance(x, ast.Call) and src(x.func).endswith('.handler')
            for x in ast.walk(n.ast))]
        for h in hcalls:
            rep.evaluated()
            ok, path = c.must_pass(sw + rm, h.id)
            if not ok:
                ok, path = _flag_guard(an, f, c, sw + rm, h, path)
            rep.check(ok, R, f.qname + ': handler only for text addressed '
                      'to the robot', f.where(h), 'a handler can run for a '
                      'comment that neither starts with the robot prefix '
                      'nor uses the slash syntax',
                      path=c.describe_path(path))
        # what is parsed is the text after the prefix that matched
        raws = {_text(f, t.matched.func.value) for t in an.test_nodes(
            f, lambda e: isinstance(e, ast.Call) and
            isinstance(e.func, ast.Attribute) and
            e.func.attr == 'startswith')}
        rep.check(len(raws) == 1, 'C07.ARG.addressed', f.qname +
                  ': one subject text', f.where(), 'startswith on %s' % raws)
        # ... and that text is the comment without its surrounding blanks:
        # what follows the prefix is cut out of the stripped text, so the
        # prefix has to be looked for in the stripped text too
        text = f.params[2]
        rep.check(raws <= {text + '.strip()', text + '.lstrip()'},
                  'C07.ARG.addressed', f.qname + ': the robot prefix is '
                  'looked for in the stripped comment', f.where(),
                  'a comment with leading blanks is not addressed to the '
                  'robot: startswith on %s' % sorted(raws))


def _flag_guard(an, f, c, gates, h, path):
    """The repo's idiom: V = None; V = <text> only under a gate; `if not V:
    return` before the handler.  Accept it when (1) the truthy edge of a
    test on a local V dominates the handler, (2) every non-falsy binding of
    V is dominated by a gate, (3) a falsy constant binding of V dominates
    the test."""
    for t in an.test_nodes(f, lambda e: isinstance(e, ast.Name)):
        v = t.ast.id
        if v in f.params:
            continue
        ok, _ = c.must_pass(c.branch(t, True), h.id)
        if not ok:
            continue
        binds = stores_to(f, v)
        falsy = [st for st, val in binds if isinstance(val, ast.Constant)
                 and not val.value]
        other = [st for st, val in binds if not (
            isinstance(val, ast.Constant) and not val.value)]
        if not falsy or not other:
            continue
        init_done = [c.done_node[id(st)] for st in falsy
                     if id(st) in c.done_node]
        ok1, _ = c.must_pass(init_done, t.id)
        ok2 = True
        bad = None
        for st in other:
            n = c.stmt_node.get(id(st))
            if n is None:
                ok2 = False
                continue
            g, p2 = c.must_pass(gates, n)
            if not g:
                ok2, bad = False, p2
        if ok1 and ok2:
            return True, None
        if bad is not None:
            path = bad
    return False, path


def sw_subject(an, f, prefix):
    for t in an.test_nodes(
            f, lambda e: isinstance(e, ast.Call) and
            isinstance(e.func, ast.Attribute) and
            e.func.attr == 'startswith'):
        return t.matched.func.value
    return None


def _text(f, e):
    return src(substitute_locals(f, e))


def _same_text(f, a, b):
    return b is not None and _text(f, a) == _text(f, b)


def _regex_match(f, e):
    """(pattern, subject) of `re.match(P, S)` / `<compiled P>.match(S)`."""
    if not isinstance(e, ast.Call):
        return None
    if dotted(e.func) == 're.match':
        return e.args[0], (e.args[1] if len(e.args) > 1 else None)
    if isinstance(e.func, ast.Attribute) and e.func.attr == 'match' and \
            len(e.args) == 1:
        comp = substitute_locals(f, e.func.value)
        if isinstance(comp, ast.Call) and dotted(comp.func) == 're.compile' \
                and comp.args:
            return comp.args[0], e.args[0]
    return None


def _loop_binding(loop, name):
    vals = []
    for st in loop.body:
        for n in walk_local(st):
            if isinstance(n, ast.Assign) and len(n.targets) == 1 and \
                    isinstance(n.targets[0], ast.Name) and \
                    n.targets[0].id == name:
                vals.append(n.value)
    return vals[0] if len(vals) == 1 else None


def _expand(f, loop, expr, depth=4):
    import copy
    if depth == 0:
        return expr

    class T(ast.NodeTransformer):
        def visit_Name(self, node):
            if not isinstance(node.ctx, ast.Load):
                return node
            v = _loop_binding(loop, node.id)
            if v is None:
                st = [x for _, x in stores_to(f, node.id)]
                if len(st) == 1 and st[0] is not None:
                    v = st[0]
            if v is not None:
                return _expand(f, loop, copy.deepcopy(v), depth - 1)
            return node
    return T().visit(copy.deepcopy(expr))


def flags_from_author(prog, an, rep):
    R = 'C07.ARG.flags'
    f = need_func(an, GWF + '.handle_comments')
    job = f.params[0]
    pm = parent_map(f.node)
    want_priv = norm_bool(ast.parse(
        '%s.author in %s.settings.admins and %s.author != '
        '%s.pull_request.author' % ('C', job, 'C', job), mode='eval').body)
    want_auth = norm_bool(ast.parse(
        'C.author == %s.pull_request.author' % job, mode='eval').body)
    seen = 0
    for meth, has_auth in (('handle_options', True),
                           ('handle_commands', False)):
        calls = an.direct_calls(f, Spec.func(RE + '.Reactor.' + meth))
        if not calls:
            rep.violation(R, f.qname + ': ' + meth, f.where(),
                          'handle_comments no longer calls Reactor.%s' %
                          meth)
            continue
        for call in calls:
            seen += 1
            loop = call
            while loop in pm and not isinstance(loop, ast.For):
                loop = pm[loop]
            if not isinstance(loop, ast.For):
                rep.violation(R, f.qname + ': ' + meth + ' per comment',
                              f.where(call), '%s is not called inside a '
                              'loop over the comments' % meth)
                continue
            it = src(loop.iter)
            rep.check(it in ('%s.pull_request.comments' % job,
                             'reversed(%s.pull_request.comments)' % job),
                      R, '%s: %s iterates the PR comments' % (f.qname, meth),
                      f.where(loop), 'loop iterates %s' % it, detail=it)
            cvar = loop.target.id if isinstance(loop.target, ast.Name) \
                else '?'
            args = {}
            tgt = prog.funcs[RE + '.Reactor.' + meth] \
                if RE + '.Reactor.' + meth in prog.funcs else None
            ps = tgt.params[1:] if tgt else []
            for p_, a in zip(ps, call.args):
                args[p_] = a
            for k in call.keywords:
                args[k.arg] = k.value

            def canon(e):
                e2 = _expand(f, loop, e)
                txt = src(e2).replace(cvar + '.', 'C.')
                try:
                    return norm_bool(ast.parse(txt, mode='eval').body)
                except SyntaxError:
                    return ('unreadable', txt)
            rep.evaluated()
            pv = args.get('privileged')
            got = canon(pv) if pv is not None else None
            rep.check(got == want_priv, R, '%s: %s privileged = comment '
                      'author is an admin and not the PR author' % (f.qname,
                                                                  meth),
                      f.where(call), 'privileged flag is %s' % (
                          src(_expand(f, loop, pv)) if pv is not None
                          else 'absent (defaults to False)')
                      if got != want_priv else '', detail=str(got))
            if has_auth:
                rep.evaluated()
                au = args.get('authored')
                got = canon(au) if au is not None else None
                rep.check(got == want_auth, R, '%s: %s authored = comment '
                          'author is the PR author' % (f.qname, meth),
                          f.where(call), 'authored flag is %s' % (
                              src(_expand(f, loop, au)) if au is not None
                              else 'absent'), detail=str(got))
            # the text parsed is the comment's and the prefix is @robot
            tx = args.get('text')
            rep.check(tx is not None and src(_expand(f, loop, tx)).replace(
                cvar + '.', 'C.') == 'C.text', R, '%s: %s parses the '
                'comment text' % (f.qname, meth), f.where(call),
                'text argument is %s' % (src(tx) if tx is not None else '?'))
            px = args.get('prefix')
            ptxt = src(_expand(f, loop, px)) if px is not None else ''
            from ..rules import string_template
            ptpl = string_template(_expand(f, loop, px)) \
                if px is not None else None
            # (the robot writes itself as its username: str(UserDict))
            rep.check(ptpl is not None and ptpl[0] == '@{}' and
                      src(ptpl[1][0]) in (
                          '%s.settings.robot' % job,
                          '%s.settings.robot.username' % job,
                          'str(%s.settings.robot)' % job), R,
                      '%s: %s prefix is @<robot>' % (f.qname, meth),
                      f.where(call), 'prefix is %s' % ptxt, detail=ptxt)
    rep.floor('C07 reactor calls in handle_comments', seen, 2)


def error_conversion(prog, an, rep):
    R = 'C07.MPT.error-conversion'
    f = need_func(an, GWF + '.handle_comments')
    c = an.cfg(f)
    want = {RE + '.NotFound': 'UnknownCommand',
            RE + '.NotPrivileged': 'NotEnoughCredentials',
            RE + '.NotAuthored': 'NotAuthor'}
    tries = [n for n in walk_local(f.node, include_root=False)
             if isinstance(n, ast.Try)]
    n_ok = 0
    for t in tries:
        body_calls = [x for s in t.body for x in ast.walk(s)
                      if isinstance(x, ast.Call)]
        is_opt = any(an.call_matches(f, x, Spec.func(
            RE + '.Reactor.handle_options')) for x in body_calls)
        is_cmd = any(an.call_matches(f, x, Spec.func(
            RE + '.Reactor.handle_commands')) for x in body_calls)
        if not (is_opt or is_cmd):
            continue
        need = dict(want)
        if is_cmd and not is_opt:
            need.pop(RE + '.NotAuthored')
        found = {}
        for h in t.handlers:
            if h.type is None:
                continue
            q = prog.resolve_expr(f.module, h.type, f)
            if q in need:
                hn = c.stmt_node[id(h)]
                first = _first_exit(an, f, c, hn)
                found[q] = first
        for q, tname in need.items():
            rep.evaluated()
            first = found.get(q)
            ok = first is not None and first[0] == 'raise' and \
                (first[1] or '').endswith('.' + tname) and \
                prog.is_subclass(first[1], TEMPLATE)
            n_ok += 1
            rep.check(ok, R, '%s: %s -> %s (blocking message)' % (
                f.qname, q.rpartition('.')[2], tname), f.where(t),
                '%s raised by the reactor is %s instead of being converted '
                'to the blocking message %s' % (
                    q.rpartition('.')[2],
                    'not caught' if first is None else 'handled as %s' %
                    (first,), tname))
    rep.floor('C07 reactor error conversions', n_ok, 5)
    for name in want.values():
        k = prog.cls(EXC + '.' + name)
        rep.check(prog.is_subclass(k, TEMPLATE), R, name + ' is a '
                  'TemplateException', k.where(), '%s posts nothing' % name)


ALLOWED_WRITERS = {
    RE + '.Reactor.init_settings':
        'initialises every option to a copy of its default',
    RE + '.Reactor.add_option.<locals>.set_option':
        'the registered setter, reached only through the reactor guards',
    'bert_e.job.APIJob.__init__':
        'validated URL parameters of an authenticated API call',
    'bert_e.bert_e.main':
        'command line arguments',
}


def option_writers(prog, an, rep):
    R = 'C07.WMC.option-writers'
    opts, _ = common.reactor_registry(prog, an)
    handlers = {o['handler'].qname for o in opts.values()
                if o['handler'] is not None}
    n = 0
    for f in prog.all_funcs():
        if f.module.name.startswith('bert_e.lib.settings_dict') or \
                f.module.name == 'bert_e.git_host.mock':
            continue
        for node in walk_local(f.node, include_root=False):
            key = None
            what = None
            tgts = []
            if isinstance(node, ast.Assign):
                tgts = node.targets
            elif isinstance(node, (ast.AugAssign, ast.AnnAssign)):
                tgts = [node.target]
            for t in tgts:
                if isinstance(t, ast.Subscript) and \
                        _is_settings(t.value):
                    key = t.slice
                    what = t
                elif isinstance(t, ast.Attribute) and \
                        _is_settings(t.value):
                    key = ast.Constant(value=t.attr)
                    what = t
            if isinstance(node, ast.Call) and \
                    isinstance(node.func, ast.Attribute) and \
                    node.func.attr in ('update', 'setdefault',
                                       '__setitem__', '__setattr__') and \
                    _is_settings(node.func.value):
                what = node
                key = node.args[0] if node.func.attr != 'update' and \
                    node.args else None
            if isinstance(node, ast.Call) and \
                    isinstance(node.func, ast.Name) and \
                    node.func.id == 'setattr' and node.args and \
                    _is_settings(node.args[0]):
                what = node
                key = node.args[1] if len(node.args) > 1 else None
            if what is None:
                continue
            n += 1
            rep.evaluated()
            kval = key.value if isinstance(key, ast.Constant) else None
            if kval is not None and kval not in opts:
                rep.ok(R, '%s writes non-option setting %r' % (f.qname,
                                                              kval),
                       f.where(node))
                continue
            ok = f.qname in ALLOWED_WRITERS or f.qname in handlers
            rep.check(ok, R, '%s writes option state (%s)' % (
                f.qname, kval if kval else 'dynamic key'), f.where(node),
                '%s writes %s into a settings object outside the reactor: '
                'an option can take effect without the privilege check' % (
                    f.qname, 'option %r' % kval if kval
                    else 'a dynamic key'),
                detail=ALLOWED_WRITERS.get(f.qname))
    rep.floor('C07 stores into settings objects', n, 5)
    # PullRequestJob is never built with a settings= override
    pj = prog.cls('bert_e.job.PullRequestJob')
    sites = 0
    for f in prog.all_funcs():
        for call in prog.calls_in(f):
            if prog.callee(f, call) == ('class', pj.qname):
                sites += 1
                rep.evaluated()
                rep.check(kw(call, 'settings') is None and
                          not any(k.arg is None for k in call.keywords),
                          'C07.KWC.job-settings', 'PullRequestJob(...) in %s '
                          'has no settings override' % f.qname,
                          f.where(call), 'a pull-request job is created '
                          'with pre-set options')
    rep.floor('C07 PullRequestJob constructor sites', sites, 8)


def _is_settings(e):
    d = dotted(e)
    if d is None:
        return False
    last = d.rpartition('.')[2]
    return last == 'settings'


def cmdline_defaults(prog, an, rep):
    R = 'C07.SIB.cmdline-defaults'
    opts, _ = common.reactor_registry(prog, an)
    for key, o in sorted(opts.items()):
        d = o['default']
        rep.evaluated()
        if d is None or (isinstance(d, ast.Constant) and not d.value):
            rep.ok(R, 'option %s default is falsy' % key, o['where'])
            continue
        if isinstance(d, ast.Call) and src(d) == 'set()':
            rep.ok(R, 'option %s default is an empty set' % key, o['where'])
            continue
        ok = isinstance(d, ast.Call) and \
            isinstance(d.func, ast.Attribute) and d.func.attr == 'get' and \
            isinstance(d.func.value, ast.Name) and len(d.args) == 2 and \
            is_const(d.args[0], key) and \
            isinstance(d.args[1], ast.Constant) and not d.args[1].value
        reg = o.get('registrar')
        if ok and reg is not None:
            ok = d.func.value.id in reg.params
        rep.check(ok, R, 'option %s default = <cmd-line defaults>.get(%r, '
                  'False)' % (key, key), o['where'], 'default of %s is %s: '
                  'the option is on without anybody asking, or another '
                  "option's command-line flag switches it on" % (key,
                                                                 src(d)),
                  detail=src(d))
    be = prog.cls('bert_e.bert_e.BertE').methods['__init__']
    calls = [c for c in prog.calls_in(be)
             if src(c.func).endswith('.setup')]
    ok = False
    for c in calls:
        if c.args and isinstance(c.args[0], ast.DictComp):
            dc = c.args[0]
            ok = is_const(dc.value, True) and \
                src(dc.generators[0].iter).endswith('cmd_line_options') \
                and not dc.generators[0].ifs and \
                src(dc.key) == src(dc.generators[0].target)
    rep.check(ok, R, 'BertE.__init__ grants exactly settings.'
              'cmd_line_options', be.where(), 'the command-line channel no '
              'longer passes {key: True for key in cmd_line_options}')
