"""C18 - branch names are classified unambiguously and robot names round-trip;
decided over the full regular languages of the patterns in the source."""
import ast
import re

from ..program import AnalysisError, walk_local, dotted
from ..analysis import Spec, src, class_const, const_value
from ..regexlang import Lang
from ..rules import (cond_equiv, substitute_locals, template_sites, GWF, EXC, need_func, stores_to, is_const)
from . import common

BR = GWF + '.branches'
V1 = r'\d+'
V2 = r'\d+\.\d+'
V3 = r'\d+\.\d+\.\d+'
V4 = r'\d+\.\d+\.\d+\.\d+'
FEATURE_PREFIXES = ('improvement', 'bugfix', 'feature', 'project',
                    'documentation', 'design', 'dependabot', 'epic', 'bug')
# the documented naming grammar, one reference expression per kind
GRAMMAR = {
    'StabilizationBranch': r'^stabilization/%s$' % V3,
    'DevelopmentBranch': r'^development/(%s|%s)$' % (V1, V2),
    'ReleaseBranch': r'^release/%s$' % V2,
    'QueueBranch': r'^q/(%s|%s|%s|%s)$' % (V1, V2, V3, V4),
    'HotfixBranch': r'^hotfix/%s$' % V3,
    'LegacyHotfixBranch': r'^hotfix/.+$',
    'UserBranch': r'^user/.+$',
    'FeatureBranch': r'^(%s)/.+$' % '|'.join(FEATURE_PREFIXES),
    'IntegrationBranch': r'^w/(%s|%s|%s|%s)/(%s)/.+$' % (
        V1, V2, V3, V4, '|'.join(FEATURE_PREFIXES)),
    'QueueIntegrationBranch': r'^q/w/\d+/(%s|%s|%s|%s)/(%s)/.+$' % (
        V1, V2, V3, V4, '|'.join(FEATURE_PREFIXES)),
}
SHADOWING = {('HotfixBranch', 'LegacyHotfixBranch'):
             'every hotfix/x.y.z is also a legacy hotfix name; the specific '
             'class is tried first'}
DESTINATIONS = {'DevelopmentBranch', 'StabilizationBranch', 'HotfixBranch'}


def run(prog, an, rep):
    rep.explain(
        'C18: the ten classes and their order are read from the '
        'branch_factory list literal; each pattern is constant-folded '
        '(including pattern[1:], pattern[3:] and the prefix splice) and '
        'turned into a DFA over the ref-legal alphabet. LNG: pairwise '
        'emptiness of intersections in factory order (45 pairs) with the '
        'frozen shadowing table; equivalence of every class language with '
        'the documented grammar; delimiter-freeness and embedding for the '
        'w/ and q/w/ round trip; REG: destination flags; SIB: name '
        'construction sites.')
    rep.assume('names range over git ref-legal characters plus three '
               'non-ASCII representatives; `$` before a trailing newline '
               'is outside that alphabet')
    rep.run_rules(prog, an, [factory_order, unambiguous, grammar,
                             destinations, construction_sites, round_trip,
                             parent_lookup, version_tuple, cascade_listing,
                             notes])


def version_tuple(prog, an, rep):
    """A constructed name parses back to the same version: x, x.y, x.y.z and
    x.y.z.n give tuples of 2, 2, 3 and 4 numbers, a 0 counting as a number
    (shared with C03's version-key rule)."""
    from . import c03
    c03.version_keys(prog, an, rep)


def factory_classes(prog, an):
    f = need_func(an, BR + '.branch_factory')
    loops = []
    for n in ast.walk(f.node):
        # the classes are tried in a loop, or lazily through a generator
        if isinstance(n, (ast.For, ast.comprehension)):
            it = substitute_locals(f, n.iter)
            if isinstance(it, (ast.List, ast.Tuple)) and it.elts and all(
                    prog.resolve_expr(f.module, e, f) in prog.classes
                    for e in it.elts):
                loops.append((n, it))
    if len(loops) != 1:
        raise AnalysisError('anchor-missing class list in branch_factory')
    loops = [loops[0][0]]
    out = []
    for e in it_elts(f, loops[0]):
        q = prog.resolve_expr(f.module, e, f)
        if q not in prog.classes:
            raise AnalysisError('branch_factory: %s is not a class' % src(e))
        out.append(prog.classes[q])
    return f, loops[0], out


def it_elts(f, loop):
    return substitute_locals(f, loop.iter).elts


_LANG = {}


def lang_of(prog, k):
    pat = class_const(prog, k, 'pattern')
    key = (k.qname, pat)
    if key not in _LANG:
        _LANG[key] = Lang.from_regex(pat, match_semantics=True, label=k.name)
    return pat, _LANG[key]


def factory_order(prog, an, rep):
    R = 'C18.REG.factory'
    f, loop, classes = factory_classes(prog, an)
    names = [k.name for k in classes]
    rep.floor('C18 classes tried by branch_factory', len(names), 5)
    rep.evaluated()
    rep.check(set(names) == set(GRAMMAR), R, f.qname + ': the ten kinds',
              f.where(loop if isinstance(loop, ast.stmt) else None),
              'branch_factory tries %s' % names,
              detail=str(names))
    # the first class whose constructor does not raise wins
    c = an.cfg(f)
    rets = [n for n in c.nodes.values() if n.kind == 'return']
    rep.check(len(rets) == 1, R, f.qname + ': returns the first class that '
              'accepts the name', f.where(), '%d returns' % len(rets))
    base = prog.cls(BR + '.GWFBranch')
    init = base.methods['__init__']
    m = [x for x in prog.calls_in(init) if dotted(x.func) == 're.match']
    rep.check(len(m) == 1 and src(m[0].args[0]) == 'self.pattern' and
              src(m[0].args[1]) == 'name', R, base.qname + ': a name '
              'belongs to a class iff re.match(cls.pattern, name)',
              init.where(), 'GWFBranch.__init__ matches %s' %
              [src(x) for x in m])
    for k in classes:
        # no subclass __init__ rejects or accepts names on its own
        if '__init__' in k.methods and k.name not in (
                'FeatureBranch', 'QueueBranch'):
            rep.violation(R, k.name + '.__init__', k.where(),
                          '%s got its own constructor: membership is no '
                          'longer decided by the pattern alone' % k.name)


def unambiguous(prog, an, rep):
    R = 'C18.LNG.unambiguous'
    _, _, classes = factory_classes(prog, an)
    n = 0
    for i, a in enumerate(classes):
        for b in classes[i + 1:]:
            n += 1
            rep.evaluated()
            pa, la = lang_of(prog, a)
            pb, lb = lang_of(prog, b)
            w = la.intersect(lb).witness()
            pair = (a.name, b.name)
            if pair in SHADOWING:
                ok, w2 = la.subset_of(lb)
                rep.check(ok, R, 'L(%s) within L(%s), specific class tried '
                          'first' % pair, a.where(), 'name %r is a %s but '
                          'not a %s: the shadowing is no longer a clean '
                          'specialisation' % (w2, a.name, b.name),
                          detail=SHADOWING[pair])
                continue
            if (b.name, a.name) in SHADOWING:
                rep.violation(R, 'order of %s and %s' % pair, a.where(),
                              '%s is tried before its specialisation %s: '
                              'name %r is classified as the general kind' %
                              (a.name, b.name, w))
                continue
            rep.check(w is None, R, 'L(%s) and L(%s) are disjoint' % pair,
                      a.where(), 'name %r matches both %s and %s: its kind '
                      'depends on the order of branch_factory' %
                      (w, a.name, b.name))
    rep.floor('C18 class pairs', n, 10)


def grammar(prog, an, rep):
    R = 'C18.LNG.grammar'
    _, _, classes = factory_classes(prog, an)
    for k in classes:
        ref = GRAMMAR.get(k.name)
        if ref is None:
            continue
        rep.evaluated()
        pat, lang = lang_of(prog, k)
        want = Lang.from_regex(ref)
        ok, w = lang.equivalent(want)
        if ok:
            rep.ok(R, 'L(%s) = documented grammar %s' % (k.name, ref),
                   k.where(), pat)
        else:
            side = 'accepted by the code but not by the grammar' \
                if lang.accepts(w) else \
                'required by the grammar but rejected by the code'
            rep.violation(R, 'L(%s) = documented grammar %s' % (k.name, ref),
                          k.where(), 'name %r is %s (pattern %r)' %
                          (w, side, pat))
    # ticket fields of feature branches
    fb = prog.cls(BR + '.FeatureBranch')
    pat = class_const(prog, fb, 'pattern')
    key = Lang.group_language(pat, 'jira_issue_key')
    ok, w = key.equivalent(Lang.from_regex(r'^[a-zA-Z0-9_]+-[0-9]+$'))
    rep.check(ok, R, 'ticket key language is PROJECT-123 at the start of '
              'the label', fb.where(), 'ticket key language differs on %r' %
              w)
    pref = class_const(prog, fb, 'all_prefixes')
    rep.check(tuple(pref) == FEATURE_PREFIXES or
              set(pref) == set(FEATURE_PREFIXES), R, 'feature prefixes',
              fb.where(), 'feature prefixes are %s' % (pref,))


def destinations(prog, an, rep):
    R = 'C18.REG.destinations'
    base = prog.cls(BR + '.GWFBranch')
    for k in prog.subclasses(base.qname):
        rep.evaluated()
        v = class_const(prog, k, 'can_be_destination')
        rep.check(bool(v) == (k.name in DESTINATIONS) and
                  isinstance(v, bool), R, '%s.can_be_destination == %s' % (
                      k.name, k.name in DESTINATIONS), k.where(),
                  '%s.can_be_destination is %r' % (k.name, v))
    f = need_func(an, BR + '.BranchCascade.add_branch')
    c = an.cfg(f)
    tb = an.branch_nodes(f, lambda e: isinstance(e, ast.Attribute) and
                         e.attr == 'can_be_destination', True)
    stores = [n for n in c.nodes.values() if n.kind == 'stmt' and
              isinstance(n.ast, ast.Assign) and
              'self._cascade' in src(n.ast.targets[0])]
    rep.floor('C18 cascade stores in add_branch', len(stores), 2)
    for s_ in stores:
        rep.evaluated()
        ok, path = c.must_pass(tb, s_.id)
        rep.check(ok and bool(tb), R, f.qname + ': only destination '
                  'branches enter the cascade', f.where(s_),
                  'a non-destination branch can be added to the cascade',
                  path=c.describe_path(path))


def _format_sites(prog, an):
    """All robot branch name constructions for w/ q/ q/w/, whatever the
    spelling (.format, f-string, %, +): [(func, node, pattern, holes)]."""
    out = []
    for f in prog.all_funcs():
        if f.module.name == 'bert_e.git_host.mock':
            continue
        for x, fmt, holes in template_sites(f, r'^(w|q|q/w)/\{'):
            out.append((f, x, fmt, holes))
    return out


def construction_sites(prog, an, rep):
    R = 'C18.SIB.construction'
    sites = _format_sites(prog, an)
    n = {'w/{}/{}': 0, 'q/{}': 0, 'q/w/{}/{}/{}': 0}
    for f, call, fmt, holes in sites:
        rep.evaluated()
        args = [src(a) for a in holes]
        if f.qname.endswith('check_conflict'):
            # temporary 'w/<branch>' probe branch, never parsed back
            continue
        if fmt not in n:
            rep.violation(R, '%s: %r' % (f.qname, fmt), f.where(call),
                          'robot branch name built from unknown format %r' %
                          fmt)
            continue
        n[fmt] += 1
        if fmt == 'w/{}/{}':
            ok = len(args) == 2 and args[0].endswith('.version') and \
                _is_source(f, holes[1])
        elif fmt == 'q/{}':
            ok = len(args) == 1 and args[0].endswith('.version')
        else:
            ok = len(args) == 3 and _is_pr_id(f, holes[0]) and \
                _is_version(f, holes[1]) and _is_source(f, holes[2])
        rep.check(ok, R, '%s: %s.format(%s)' % (f.qname, fmt,
                                                ', '.join(args)),
                  f.where(call), 'fields of %r are filled with %s (expected '
                  '%s)' % (fmt, args, {
                      'w/{}/{}': 'version, source branch',
                      'q/{}': 'version',
                      'q/w/{}/{}/{}': 'pr id, version, source branch'}[fmt]))
    rep.floor('C18 w/ name construction sites', n['w/{}/{}'], 3)
    rep.floor('C18 q/w/ name construction sites', n['q/w/{}/{}/{}'], 1)
    rep.floor('C18 q/ name construction sites', n['q/{}'], 1)


def cascade_listing(prog, an, rep):
    """BranchCascade.build reads destination names from `git branch -a
    --list`: what it hands to branch_factory is the whole ref name (minus
    git's own decoration), not a suffix of it -- otherwise a feature branch
    called bugfix/development/9.9 would count as development/9.9."""
    R = 'C18.LNG.cascade-listing'
    f = need_func(an, BR + '.BranchCascade.build')
    calls = [(x, dotted(x.func), x.args[0]) for x in prog.calls_in(f)
             if (dotted(x.func) or '').startswith('re.') and len(x.args) == 2]
    # the bound method of a compiled pattern handed to map() / filter()
    for x in ast.walk(f.node):
        if isinstance(x, ast.Attribute) and x.attr in (
                'match', 'fullmatch', 'search') and \
                isinstance(x.value, ast.Call) and \
                dotted(x.value.func) == 're.compile' and x.value.args and \
                not any(isinstance(c_, ast.Call) and c_.func is x
                        for c_ in ast.walk(f.node)):
            calls.append((x, 're.' + x.attr, x.value.args[0]))
    rep.floor('C18 name extraction in BranchCascade.build', len(calls), 1)
    for x, fn, pat_e in calls:
        rep.evaluated()
        try:
            pat = const_value(substitute_locals(f, pat_e))
        except AnalysisError:
            pat = None
        ok = fn in ('re.match', 're.fullmatch') and isinstance(pat, str) \
            and '(?P<name>' in pat
        detail = 'the name is taken with %s(%r)' % (fn, pat)
        if ok:
            head, _, tail = pat.partition('(?P<name>')
            deco = Lang.from_regex('^[*+]?\\s*(remotes/[^/\\s]+/)?$')
            okh, w = Lang.from_regex('^' + head.lstrip('^') + '$') \
                .subset_of(deco)
            ok = okh and tail in ('.*)', '.*)$', '.+)', '.+)$')
            if not okh:
                detail = 'the text %r is skipped in front of the name' % w
        rep.check(ok, R, f.qname + ': the destination name is the whole '
                  'listed ref name', f.where(x), detail + ': a branch whose '
                  'name merely ends like a destination name would enter the '
                  'cascade as that destination')
    # what is listed is then classified by branch_factory, and only
    # destination kinds are kept by add_branch
    bf = an.direct_calls(f, Spec.func(BR + '.branch_factory'))
    rep.check(len(bf) >= 1, R, f.qname + ': listed names go through '
              'branch_factory', f.where(), 'names are no longer classified '
              'by branch_factory')


def _vals(f, e):
    if isinstance(e, ast.Name):
        vs = [v for _, v in stores_to(f, e.id) if v is not None and
              not is_const(v, None)]
        if vs:
            return [src(v) for v in vs]
    return [src(e)]


def _is_source(f, e):
    return all(v.endswith('src_branch') or v in ('src', 'src_branch')
               for v in _vals(f, e)) and (
        not isinstance(e, ast.Name) or e.id in ('src', 'src_branch') or
        all(v.endswith('src_branch') for v in _vals(f, e)))


def _is_version(f, e):
    return all(v.endswith('.version') for v in _vals(f, e))


def _is_pr_id(f, e):
    return all(v.endswith('pr_id') or v.endswith('pull_request.id')
               for v in _vals(f, e)) or src(e) == 'pr_id'


def round_trip(prog, an, rep):
    R = 'C18.LNG.round-trip'
    ib = prog.cls(BR + '.IntegrationBranch')
    qib = prog.cls(BR + '.QueueIntegrationBranch')
    qb = prog.cls(BR + '.QueueBranch')
    fb = prog.cls(BR + '.FeatureBranch')
    _, _, classes = factory_classes(prog, an)
    feature_pat, feature = lang_of(prog, fb)
    # version strings the destination classes can carry
    dest_versions = Lang.from_regex(r'^(%s|%s|%s|%s)$' % (V1, V2, V3, V4))
    for k, groups in ((ib, ('version',)), (qib, ('pr_id', 'version')),
                      (qb, ('version',))):
        pat = class_const(prog, k, 'pattern')
        for g in groups:
            rep.evaluated()
            gl = Lang.group_language(pat, g)
            rep.check(not gl.contains_char('/'), R, '%s: field %s contains '
                      'no "/"' % (k.name, g), k.where(),
                      'field %s of %s can contain "/" (e.g. %r): the split '
                      'of a constructed name is no longer unique' % (
                          g, k.name, gl.witness()))
            if g == 'version':
                ok, w = dest_versions.subset_of(gl)
                rep.check(ok, R, '%s: every destination version fits the '
                          'version field' % k.name, k.where(),
                          'version %r cannot be written in a %s name' % (
                              w, k.name))
            if g == 'pr_id':
                ok, w = Lang.from_regex(r'^\d+$').equivalent(gl)
                rep.check(ok, R, '%s: pr id field is a decimal number' %
                          k.name, k.where(), 'pr id field differs on %r' % w)
        if k is qb:
            continue
        rep.evaluated()
        tail = Lang.group_language(pat, 'feature_branch')
        feat_full = Lang.group_language(feature_pat, 'feature_branch')
        ok, w = tail.equivalent(feat_full)
        rep.check(ok, R, '%s: the tail field is exactly a feature branch '
                  'name' % k.name, k.where(), 'the source-branch field of '
                  '%s and the FeatureBranch language differ on %r' % (
                      k.name, w))
        # every constructed name is accepted by its class ...
        prefix = 'w/' if k is ib else r'q/w/\d+/'
        built = Lang.from_regex('^%s(%s|%s|%s|%s)/%s' % (
            prefix, V1, V2, V3, V4, feature_pat.lstrip('^')))
        _, lk = lang_of(prog, k)
        ok, w = built.subset_of(lk)
        rep.evaluated()
        rep.check(ok, R, 'every %s built from (id,) version, feature name '
                  'is a %s' % (prefix.replace('\\d+', '<pr>') + '<v>/<src>',
                               k.name), k.where(),
                  'constructed name %r is not recognised as %s' % (w,
                                                                  k.name))
        # ... and by no class tried earlier
        for e in classes:
            if e is k:
                break
            _, le = lang_of(prog, e)
            w = built.intersect(le).witness()
            rep.evaluated()
            rep.check(w is None, R, 'no %s name is claimed by %s first' % (
                k.name, e.name), e.where(), 'constructed name %r is '
                'classified as %s before %s is tried' % (w, e.name, k.name))
        # the pattern is <prefix><version>/<feature pattern>$ : nothing
        # after the feature field
        whole = Lang.from_regex(pat)
        anchored, w = whole.subset_of(built)
        rep.evaluated()
        rep.check(anchored, R, '%s names are nothing but prefix, version '
                  'and feature name' % k.name, k.where(), 'name %r is a %s '
                  'but is not of the constructed form: parsing it back '
                  'yields other fields' % (w, k.name))
    # queue branch -> destination name mapping
    init = qb.methods.get('__init__')
    fmts = [t for _, t, _ in template_sites(init)] if init else []
    rep.check(sorted(fmts) == ['development/{}', 'hotfix/{}.{}.{}',
                               'stabilization/{}'], R,
              'QueueBranch maps its version to the destination name',
              qb.where(), 'QueueBranch builds destinations from %s' % fmts)


def parent_mapping(prog, an, f):
    """How handle_commit turns a candidate branch into the source branch
    name used to look the pull request up.  Either the nested
    get_parent_branch(branch) (if / return) or the same thing written as a
    conditional expression in a comprehension.  Returns (variable, test
    expr, value when true, value when false, name of the list mapped) or
    None."""
    g = f.nested.get('get_parent_branch')
    if g is not None and g.params:
        from ..inline import _as_expression, _body_wo_doc
        import copy
        e = _as_expression(copy.deepcopy(_body_wo_doc(g.node)))
        if isinstance(e, ast.IfExp):
            over = None
            for x in prog.calls_in(f):
                if src(x.func) == 'map' and len(x.args) == 2 and \
                        src(x.args[0]) == g.name:
                    over = src(x.args[1])
            for x in walk_local(f.node, include_root=False):
                if isinstance(x, (ast.ListComp, ast.GeneratorExp)) and \
                        isinstance(x.elt, ast.Call) and \
                        src(x.elt.func) == g.name:
                    over = src(x.generators[0].iter)
            return g.params[0], e.test, e.body, e.orelse, over
        return None
    for x in walk_local(f.node, include_root=False):
        if isinstance(x, (ast.ListComp, ast.GeneratorExp)) and \
                len(x.generators) == 1 and not x.generators[0].ifs and \
                isinstance(x.elt, ast.IfExp) and \
                isinstance(x.generators[0].target, ast.Name) and \
                'feature_branch' in src(x.elt):
            return (x.generators[0].target.id, x.elt.test, x.elt.body,
                    x.elt.orelse, src(x.generators[0].iter))
    return None


def parent_lookup(prog, an, rep):
    R = 'C18.ARG.parent-lookup'
    f = need_func(an, GWF + '.handle_commit')
    pm_ = parent_mapping(prog, an, f)
    rep.evaluated()
    if pm_ is None:
        rep.violation(R, f.qname + ': get_parent_branch', f.where(),
                      'handle_commit no longer maps integration branches to '
                      'their source branch')
        return
    var, test, yes, no, _ = pm_
    # (whichever way round the test is written)
    if cond_equiv(None, test, 'not isinstance(%s, IntegrationBranch)' % var):
        test, yes, no = ast.UnaryOp(op=ast.Not(), operand=test), no, yes
    ok = cond_equiv(None, test, 'isinstance(%s, IntegrationBranch)' % var) \
        and src(yes) == var + '.feature_branch' and src(no) == var + '.name'
    rep.check(ok, R, f.qname + ': integration branch -> its '
              'feature_branch field, anything else -> its own name',
              f.where(test), 'parent lookup is %s if %s else %s' % (
                  src(yes), src(test), src(no)))


def notes(prog, an, rep):
    """Informational: development / stabilization branches are accepted as
    pull-request sources but have no w/ or q/w/ name."""
    db = prog.cls(BR + '.DevelopmentBranch')
    dpat = class_const(prog, db, 'pattern')
    _, _, classes = factory_classes(prog, an)
    built = Lang.from_regex('^w/(%s|%s)/%s' % (V1, V2, dpat.lstrip('^')))
    claimed = None
    for k in classes:
        _, lk = lang_of(prog, k)
        if not built.intersect(lk).is_empty():
            claimed = k.name
    if claimed is None:
        rep.note('N-C18-1 (informational, not armed): development/* and '
                 'stabilization/* are cascade producers, but a name such as '
                 '%r derived from such a source is in no class\'s language '
                 '(UnrecognizedBranchPattern); the armed round-trip rule '
                 'ranges over feature-like sources only' % built.witness())
