"""C17 - CI results are aggregated soundly and a green verdict is never
downgraded (cache write discipline, cache trust, aggregation guards)."""
import ast
import itertools

from ..program import AnalysisError, walk_local, dotted
from ..analysis import Spec, src, class_const, const_value
from ..rules import (flow_canon, ctext, strip_wrappers, kw, exists_form, cond_equiv, cond_branches, substitute_locals, canon, GWF, EXC, need_func, stores_to, is_const, eval_atom, eval_cond,
                     UNKNOWN, parent_map, raise_class)
from . import common
from .c07 import _explore

GH = 'bert_e.git_host.github'
BB = 'bert_e.git_host.bitbucket'
LRU = 'bert_e.lib.lru_cache.LRUCache'


def run(prog, an, rep):
    rep.explain(
        'C17: WMC+MPT (every BUILD_STATUS_CACHE[k].set(rev, .) is dominated '
        'by a read of the same (k, rev) entry whose outcome on the path is '
        '"absent" or "state != SUCCESSFUL"), SIB/MPT (both get_build_status '
        'answer from the cache only for SUCCESSFUL, otherwise query the '
        'host), EXH (truth tables of AggregatedWorkflowRuns.branch_state '
        'and .state by partial evaluation), REG (workflow_dispatch filter, '
        'conclusion ranking, strict replacement), REG (LRU recency and '
        'eviction end).')
    rep.assume('the value of the aggregate on concrete run lists (order of '
               'runs, groupby on non-adjacent branches) and eviction timing '
               'are not evaluated')
    rep.run_rules(prog, an, [guarded_cache_writes, slot_agreement,
                             every_status_stored,
                             cache_trust,
                             branch_state_table, state_precedence,
                             unwanted_workflows, lru_rules])


def _cache_key(expr, f=None):
    """If expr is <...>BUILD_STATUS_CACHE[<key>] (possibly through a local
    that names that entry) return src(key)."""
    if f is not None and isinstance(expr, ast.Name):
        full = substitute_locals(f, expr, depth=1)
        expr = full if isinstance(full, ast.Subscript) and \
            (dotted(full.value) or '').endswith('BUILD_STATUS_CACHE') \
            else substitute_locals(f, expr, paths_only=True)
    if isinstance(expr, ast.Subscript) and \
            (dotted(expr.value) or '').endswith('BUILD_STATUS_CACHE'):
        return src(expr.slice)
    return None


def cache_calls(prog, method):
    out = []
    for f in prog.all_funcs():
        if f.module.name == 'bert_e.git_host.mock':
            continue
        for call in prog.calls_in(f):
            if isinstance(call.func, ast.Attribute) and \
                    call.func.attr == method:
                k = _cache_key(call.func.value, f)
                if k is not None:
                    out.append((f, call, k))
    return out


def _guard_nodes(an, f, c, key, rev, before):
    """Branch nodes asserting 'no SUCCESSFUL entry for (key, rev)' for a
    variable bound to CACHE[key].get(rev, ...)."""
    vars_ = []
    for st in walk_local(f.node, include_root=False):
        if isinstance(st, ast.Assign) and len(st.targets) == 1 and \
                isinstance(st.targets[0], ast.Name) and \
                isinstance(st.value, ast.Call) and \
                isinstance(st.value.func, ast.Attribute) and \
                st.value.func.attr == 'get' and \
                _cache_key(st.value.func.value, f) == key and \
                st.value.args and src(st.value.args[0]) == rev:
            vars_.append((st.targets[0].id, st))
    gates = []
    for v, st in vars_:
        others = [s2 for s2, _ in stores_to(f, v) if s2 is not st]
        tainted = set()
        for s2 in others:
            for i in c.copies.get(id(s2), []):
                tainted |= c.reachable(start=i)

        def reads_cached(t):
            # the test sees the cached entry: no other binding reaches it
            return t.id not in tainted
        for t in an.test_nodes(
                f, lambda e: isinstance(e, ast.Name) and e.id == v):
            if reads_cached(t):
                gates += c.branch(t, False)
        for t in an.test_nodes(f, lambda e: isinstance(e, ast.Compare) and
                               len(e.ops) == 1):
            if not reads_cached(t):
                continue
            e = t.ast
            l, r, op = src(e.left), e.comparators[0], e.ops[0]
            if l == v and is_const(r, None):
                if isinstance(op, ast.Is):
                    gates += c.branch(t, True)
                elif isinstance(op, ast.IsNot):
                    gates += c.branch(t, False)
            if l == v + '.state' and is_const(r, 'SUCCESSFUL'):
                if isinstance(op, ast.NotEq):
                    gates += c.branch(t, True)
                elif isinstance(op, ast.Eq):
                    gates += c.branch(t, False)
    return gates, vars_


def guarded_cache_writes(prog, an, rep):
    R = 'C17.MPT.guarded-cache-write'
    sets = cache_calls(prog, 'set')
    rep.floor('C17 BUILD_STATUS_CACHE[...].set sites', len(sets), 6)
    for f, call, key in sets:
        rep.evaluated()
        c = an.cfg(f)
        rev = src(call.args[0]) if call.args else '?'
        tn = [n for n in c.nodes.values()
              if n.kind in ('stmt', 'return') and
              any(x is call for x in ast.walk(n.ast))]
        if not tn:
            raise AnalysisError('cache store not found in CFG of ' + f.qname)
        gates, vars_ = _guard_nodes(an, f, c, key, rev, call)
        ok = bool(gates)
        path = None
        for t in tn:
            o, p_ = c.must_pass(gates, t.id)
            if not o:
                ok, path = False, p_
        rep.check(ok, R, f.qname, f.where(call),
                  'BUILD_STATUS_CACHE[%s].set(%s, ...) is not guarded by a '
                  'check that the same entry is absent or not SUCCESSFUL: a '
                  'cached green verdict can be overwritten%s' % (
                      key, rev, '' if vars_ else
                      ' (no read of this entry in the function)'),
                  path=c.describe_path(path))
    # any other way to write the cache
    for f in prog.all_funcs():
        if f.module.name == 'bert_e.git_host.mock':
            continue
        for n in walk_local(f.node, include_root=False):
            tgts = []
            if isinstance(n, ast.Assign):
                tgts = n.targets
            elif isinstance(n, ast.Delete):
                tgts = n.targets
            for t in tgts:
                if 'BUILD_STATUS_CACHE' in src(t):
                    rep.violation(R, f.qname + ': direct store', f.where(n),
                                  'the status cache is written without '
                                  'LRUCache.set: %s' % src(n)[:60])
            if isinstance(n, ast.Call) and \
                    isinstance(n.func, ast.Attribute) and \
                    'BUILD_STATUS_CACHE' in canon(f, n.func.value, paths_only=True) and \
                    n.func.attr in ('clear', 'pop', 'popitem', 'update',
                                    '__setitem__', 'setdefault'):
                ok = f.qname == BB + '.Repository.' \
                    'invalidate_build_status_cache'
                rep.check(ok, R, '%s: cache.%s()' % (f.qname, n.func.attr),
                          f.where(n), 'the status cache is %s-ed: cached '
                          'green verdicts are lost' % n.func.attr,
                          detail='test helper, never called by the robot')
    inv = prog.func(BB + '.Repository.invalidate_build_status_cache',
                    required=False)
    if inv is not None:
        callers = [g.qname for g in prog.all_funcs()
                   if g.module.name != 'bert_e.git_host.mock' and any(
                       isinstance(x.func, ast.Attribute) and
                       x.func.attr == 'invalidate_build_status_cache'
                       for x in prog.calls_in(g))]
        rep.check(not callers, R, 'invalidate_build_status_cache has no '
                  'caller in the robot', inv.where(), 'the cache is '
                  'invalidated from %s' % callers)


def every_status_stored(prog, an, rep):
    """What the host reports for a commit is stored for every build key:
    a store made from inside any() / all() / next() over a generator stops
    at the first answer that settles the quantifier, and the other keys are
    never cached (their URL and description are read from the cache only)."""
    R = 'C17.MPT.every-status-stored'
    writers = {f.qname for f, _, _ in cache_calls(prog, 'set')}
    n = 0
    for f in prog.all_funcs():
        if f.module.name == 'bert_e.git_host.mock':
            continue
        pm = None
        for call in prog.calls_in(f):
            cal = prog.callee(f, call)
            direct = isinstance(call.func, ast.Attribute) and \
                call.func.attr == 'set' and \
                _cache_key(call.func.value, f) is not None
            if not direct and not (cal[0] == 'func' and cal[1] in writers
                                   and cal[1] != f.qname):
                if not (isinstance(call.func, ast.Attribute) and any(
                        w.rpartition('.')[2] == call.func.attr and
                        cal[0] != 'func' for w in writers)):
                    continue
            n += 1
            if pm is None:
                pm = parent_map(f.node)
            up = call
            lazy = None
            while up in pm:
                par = pm[up]
                if isinstance(par, ast.GeneratorExp):
                    outer = pm.get(par)
                    if isinstance(outer, ast.Call) and \
                            isinstance(outer.func, ast.Name) and \
                            outer.func.id in ('any', 'all', 'next') and \
                            par in outer.args:
                        lazy = outer.func.id
                        break
                if isinstance(par, ast.BoolOp) and up is not par.values[0] \
                        and isinstance(pm.get(par), (ast.Expr, ast.Assign)):
                    pass
                up = par
            rep.evaluated()
            rep.check(lazy is None, R, f.qname + ': cache stores are not '
                      'cut short', f.where(call), 'the status cache is '
                      'written from inside %s(...) over a generator: the '
                      'statuses after the first one that settles it are not '
                      'stored' % lazy)
    rep.floor('C17 cache store sites (direct or through a helper)', n, 6)


def _same_status(ck, cv):
    """Is the slot named ck the one the status cv belongs to?  ck, cv:
    canonical texts of the key of the slot and of the value stored."""
    try:
        k = ast.parse(ck, mode='eval').body
        v = ast.parse(cv, mode='eval').body
    except SyntaxError:
        return False
    # for key, status in d.items(): CACHE[key].set(., status)
    if isinstance(k, ast.Call) and isinstance(v, ast.Call) and \
            src(k.func) == 'key' and src(v.func) == 'value' and \
            len(k.args) == len(v.args) == 1 and \
            src(k.args[0]) == src(v.args[0]):
        return True
    # CACHE[status.key].set(., status)
    if isinstance(k, ast.Attribute) and k.attr == 'key' and \
            src(k.value) == src(v):
        return True
    if isinstance(v, ast.Call):
        for w in v.keywords:
            if w.arg is not None:
                continue
            # Status(**d) stored under d['key']
            if isinstance(k, ast.Subscript) and \
                    is_const(k.slice, 'key') and \
                    src(k.value) == src(w.value):
                return True
            # Status.get(**{'key': key, ...}) stored under key
            if isinstance(w.value, ast.Dict):
                for dk, dv in zip(w.value.keys, w.value.values):
                    if is_const(dk, 'key') and src(dv) == src(k):
                        return True
        for w in v.keywords:
            if w.arg == 'key' and src(w.value) == src(k):
                return True
    return False


def _bind_call(f, call):
    """{parameter of f: argument expression} for a call of f (self
    skipped for a method reached through an attribute)."""
    params = list(f.params)
    if f.cls is not None and params and isinstance(call.func, ast.Attribute) \
            and not any(src(d) == 'staticmethod'
                        for d in f.node.decorator_list):
        params = params[1:]
    out = {}
    for p_, a in zip(params, call.args):
        if isinstance(a, ast.Starred):
            break
        out[p_] = a
    for k in call.keywords:
        if k.arg is not None:
            out[k.arg] = k.value
    return out


def _paired_items(g, call, ka, va):
    """Are ka, va the two variables of one `for k, v in <d>.items()` (a
    loop or a comprehension) around the call?"""
    if not (isinstance(ka, ast.Name) and isinstance(va, ast.Name)):
        return False
    pm = parent_map(g.node)
    up = call
    while up in pm:
        up = pm[up]
        gens = []
        if isinstance(up, (ast.ListComp, ast.SetComp, ast.GeneratorExp,
                           ast.DictComp)):
            gens = [(g_.target, g_.iter) for g_ in up.generators]
        elif isinstance(up, ast.For):
            gens = [(up.target, up.iter)]
        for tgt, it in gens:
            if isinstance(tgt, ast.Tuple) and len(tgt.elts) == 2 and \
                    all(isinstance(e, ast.Name) for e in tgt.elts) and \
                    [e.id for e in tgt.elts] == [ka.id, va.id] and \
                    isinstance(it, ast.Call) and \
                    isinstance(it.func, ast.Attribute) and \
                    it.func.attr == 'items' and not it.args:
                return True
    return False


def slot_agreement(prog, an, rep):
    """A status is stored in the slot of its own build key: a green status
    of another key written there would answer for this key from then on."""
    R = 'C17.ARG.slot-agreement'
    sets = cache_calls(prog, 'set')
    rep.floor('C17 BUILD_STATUS_CACHE[...].set sites', len(sets), 6)
    for f, call, key in sets:
        rep.evaluated()
        if len(call.args) < 2:
            rep.violation(R, f.qname, f.where(call), 'cache store without a '
                          'status')
            continue
        kexpr = call.func.value
        if isinstance(kexpr, ast.Name):
            kexpr = substitute_locals(f, kexpr, depth=1)
        kexpr = kexpr.slice if isinstance(kexpr, ast.Subscript) else None
        ck = flow_canon(an, f, kexpr) if kexpr is not None else key
        cv = flow_canon(an, f, call.args[1])
        # loop variables by what they range over
        ak = canon(f, kexpr) if kexpr is not None else key
        av = canon(f, call.args[1])
        ok = _same_status(ck, cv) or _same_status(ak, av)
        if not ok and kexpr is not None and isinstance(kexpr, ast.Name) and \
                isinstance(call.args[1], ast.Name) and \
                kexpr.id in f.params and call.args[1].id in f.params and \
                not stores_to(f, kexpr.id) and \
                not stores_to(f, call.args[1].id):
            # the store is in a helper given the key and the status: they
            # must belong together where the helper is called
            sites = []
            for g in prog.all_funcs():
                for x in prog.calls_in(g):
                    cal = prog.callee(g, x)
                    if (cal[0] == 'func' and cal[1] == f.qname) or (
                            isinstance(x.func, ast.Attribute) and
                            x.func.attr == f.name and cal[0] != 'func'):
                        sites.append((g, x))
            ok = bool(sites)
            for g, x in sites:
                b = _bind_call(f, x)
                ka, va = b.get(kexpr.id), b.get(call.args[1].id)
                if ka is None or va is None:
                    ok = False
                    continue
                ok = ok and (
                    _paired_items(g, x, ka, va) or
                    _same_status(flow_canon(an, g, ka),
                                 flow_canon(an, g, va)) or
                    _same_status(canon(g, ka), canon(g, va)))
        rep.check(ok, R, f.qname + ': the slot is that of '
                  'the status stored', f.where(call),
                  'BUILD_STATUS_CACHE[%s].set(., %s): the status stored is '
                  'not tied to the build key of the slot (slot %s, status '
                  '%s)' % (key, src(call.args[1]), ck[:80], cv[:80]))


def cache_trust(prog, an, rep):
    R = 'C17.MPT.cache-trust'
    for q, host_pred in (
            (GH + '.Repository.get_build_status',
             lambda f, x: isinstance(x.func, ast.Attribute) and
             x.func.attr == 'get_commit_status'),
            (BB + '.Repository.get_build_status',
             lambda f, x: src(x.func) == 'BuildStatus.get')):
        f = need_func(an, q)
        c = an.cfg(f)
        every = [(call, k) for g, call, k in cache_calls(prog, 'get')
                 if g is f]
        # the read of its own entry (other entries may be read where they
        # are refreshed: guarded-cache-write looks at those)
        gets = [(call, k) for call, k in every if k == f.params[2] and
                call.args and src(call.args[0]) == f.params[1]] or every
        rep.check(len(gets) == 1 and gets[0][1] == f.params[2] and
                  src(gets[0][0].args[0]) == f.params[1], R,
                  f.qname + ': reads the entry of its own (key, revision)',
                  f.where(), 'cache reads: %s' % [src(x) for x, _ in gets])
        var = None
        for st, v in [(s_, val) for name in _names(f)
                      for s_, val in stores_to(f, name)]:
            if v is not None and gets and v is gets[0][0]:
                var = st.targets[0].id
        if var is None:
            rep.violation(R, f.qname + ': cached entry bound to a variable',
                          f.where(), 'the cached entry is not kept in a '
                          'variable the shortcut can test')
            continue
        host = [n for n in c.nodes.values() if n.kind in ('stmt', 'return')
                and any(isinstance(x, ast.Call) and host_pred(f, x)
                        for x in ast.walk(n.ast))]
        rep.floor('C17 host queries in ' + f.qname, len(host), 1)
        succ = []
        for t in an.test_nodes(
                f, lambda e: isinstance(e, ast.Compare) and len(e.ops) == 1
                and src(e.left) == var + '.state' and
                isinstance(e.ops[0], ast.Eq) and
                is_const(e.comparators[0], 'SUCCESSFUL')):
            succ += c.branch(t, True)
        rep.evaluated()
        ok, path = c.must_pass([h.id for h in host] + succ, c.exit,
                               use_exc=False)
        rep.check(ok and bool(succ), R, f.qname + ': answers from the cache '
                  'only when the entry is SUCCESSFUL, else asks the host',
                  f.where(), 'get_build_status can answer without asking '
                  'the host for an entry that is not SUCCESSFUL',
                  path=c.describe_path(path))
        # what the shortcut returns is the cached state itself
        for b in succ:
            reach = c.reachable(start=b, use_exc=False,
                                stop=[h.id for h in host])
            rets = [c.nodes[i] for i in reach
                    if c.nodes[i].kind == 'return']
            vals = {src(r.ast.value) for r in rets if r.ast.value}
            rep.check(vals == {var + '.state'}, R, f.qname + ': the '
                      'shortcut returns the cached state', f.where(),
                      'shortcut returns %s' % sorted(vals))
        # every literal answered is NOTSTARTED (absence)
        lits = set()
        for n in c.nodes.values():
            if n.kind == 'return' and isinstance(n.ast.value, ast.Constant):
                lits.add(n.ast.value.value)
        rep.check(lits <= {'NOTSTARTED'}, R, f.qname + ': absence is '
                  'answered NOTSTARTED, never a verdict', f.where(),
                  'literal answers: %s' % sorted(map(str, lits)))
        # state comparisons in this function mention only SUCCESSFUL
        others = set()
        for t in an.test_nodes(f, lambda e: '.state' in src(e)):
            for x in ast.walk(t.ast):
                if isinstance(x, ast.Constant) and isinstance(x.value, str) \
                        and x.value != 'SUCCESSFUL':
                    others.add(x.value)
        rep.check(not others, R, f.qname + ': SUCCESSFUL is the only '
                  'trusted cached state', f.where(), 'cache shortcut also '
                  'tests %s' % sorted(others))
    # 404 from Bitbucket means NOTSTARTED; other errors propagate
    f = need_func(an, BB + '.Repository.get_build_status')
    c = an.cfg(f)
    t404 = an.branch_nodes(f, lambda e: 'status_code' in src(e) and
                           isinstance(e, ast.Compare) and
                           is_const(e.comparators[0], 404) and
                           isinstance(e.ops[0], ast.Eq), True)
    for n in c.nodes.values():
        if n.kind == 'return' and is_const(n.ast.value, 'NOTSTARTED'):
            ok, path = c.must_pass(t404, n.id)
            rep.check(ok and bool(t404), R, f.qname + ': NOTSTARTED only '
                      'for a 404', f.where(n), 'NOTSTARTED is answered for '
                      'other host errors', path=c.describe_path(path))


def _names(f):
    return {n.id for n in walk_local(f.node, include_root=False)
            if isinstance(n, ast.Name) and isinstance(n.ctx, ast.Store)}


def branch_state_table(prog, an, rep):
    R = 'C17.EXH.branch-state'
    f = need_func(an, GH + '.AggregatedWorkflowRuns.branch_state')
    c = an.cfg(f)
    runs = f.params[1]
    # definitions of the two aggregates over the SAME list
    want = {'all_complete': "all((elem['conclusion'] is not None for elem "
                            "in %s))" % runs,
            'all_success': "all((elem['conclusion'] == 'success' for elem "
                           "in %s))" % runs}
    names = {}
    for v, text in want.items():
        found = None
        for name in _names(f):
            for _, val in stores_to(f, name):
                # (comprehension variables carry no meaning: canon
                # numbers them on both sides)
                if val is not None and canon(None, val) == ctext(None, text):
                    found = name
        names[v] = found
        rep.evaluated()
        rep.check(found is not None, R, '%s: %s over every run of the '
                  'branch' % (f.qname, v), f.where(), 'no definition equal '
                  'to %s' % text)
    if None in names.values():
        return
    atoms = {
        'pending': 'self.is_pending(%s)' % runs,
        'queued': 'self.is_queued(%s)' % runs,
    }

    def empty(emp):
        # the spellings of "no run at all"
        return {'%s.__len__() == 0' % runs: emp, 'len(%s) == 0' % runs: emp,
                '%s == []' % runs: emp, 'len(%s) < 1' % runs: emp,
                runs: not emp, 'len(%s)' % runs: not emp,
                '%s.__len__()' % runs: not emp,
                'len(%s) > 0' % runs: not emp,
                'len(%s) >= 1' % runs: not emp}
    rows = 0
    bad = False
    for emp, pen, que, comp, suc in itertools.product((True, False),
                                                      repeat=5):
        if emp and not (comp and suc):
            continue       # all([]) is True: infeasible rows
        if suc and not comp:
            continue       # success implies a non-None conclusion
        env = {atoms['pending']: pen,
               atoms['queued']: que, names['all_complete']: comp,
               names['all_success']: suc}
        env.update(empty(emp))
        got = _returns(an, f, c, env)
        if emp:
            want_v = 'NOTSTARTED'
        elif pen or que or not comp:
            want_v = 'INPROGRESS'
        elif comp and suc:
            want_v = 'SUCCESSFUL'
        else:
            want_v = 'FAILED'
        rows += 1
        rep.evaluated()
        if got != {want_v}:
            bad = True
            rep.violation(R, '%s: row empty=%s pending=%s queued=%s '
                          'complete=%s success=%s' % (f.qname, emp, pen, que,
                                                      comp, suc), f.where(),
                          'branch_state answers %s, required %s' % (
                              sorted(got), want_v))
    if not bad:
        rep.ok(R, '%s: %d-row truth table (never SUCCESSFUL without runs, '
               'pending/queued/incomplete before success)' % (f.qname, rows),
               f.where())
    for q in ('is_pending', 'is_queued'):
        g = need_func(an, GH + '.AggregatedWorkflowRuns.' + q)
        lit = 'pending' if q == 'is_pending' else 'queued'
        ex = exists_form(an, g)
        ok = ex is not None and ex[0] == g.params[1] and \
            cond_equiv(None, ex[2], "%s['status'] == '%s'" % (ex[1], lit))
        rep.check(ok, R, g.qname + ': any run with status %s' % lit,
                  g.where(), '%s no longer tests status == %r' % (q, lit))


def _returns(an, f, c, env):
    out = set()
    seen = set()
    stack = [c.entry]
    while stack:
        i = stack.pop()
        if i in seen:
            continue
        seen.add(i)
        n = c.nodes[i]
        if n.kind == 'test':
            v = eval_cond(f, n.ast, env)
            if v is UNKNOWN:
                stack.extend(s for s in c.succ[i]
                             if (i, s) not in c.exc_edges)
            else:
                stack.extend(c.branch(n, bool(v)))
            continue
        if n.kind == 'return':
            v = n.ast.value
            if v is None:
                out.add(None)
            else:
                try:
                    out.add(const_value(v))
                except AnalysisError:
                    out.add(canon(f, v))
            continue
        if i == c.exit:
            out.add(None)
            continue
        for s in c.succ[i]:
            if (i, s) not in c.exc_edges:
                stack.append(s)
    return out


def state_precedence(prog, an, rep):
    R = 'C17.EXH.state'
    f = need_func(an, GH + '.AggregatedWorkflowRuns.state')
    c = an.cfg(f)
    stv = None
    for t in an.test_nodes(f, lambda e: isinstance(e, ast.Compare) and
                           isinstance(e.ops[0], ast.In)):
        stv = src(t.matched.comparators[0])
    if stv is None:
        raise AnalysisError('anchor-missing membership tests in ' + f.qname)
    lits = ('SUCCESSFUL', 'INPROGRESS', 'FAILED')
    rows = 0
    bad = False
    for vals in itertools.product((True, False), repeat=3):
        env = {"'%s' in %s" % (l, stv): v for l, v in zip(lits, vals)}
        got = _returns(an, f, c, env)
        want = 'NOTSTARTED'
        for l, v in zip(lits, vals):
            if v:
                want = l
                break
        rows += 1
        rep.evaluated()
        if got != {want}:
            bad = True
            rep.violation(R, '%s: row %s' % (f.qname, dict(zip(lits, vals))),
                          f.where(), 'state answers %s, required %s' % (
                              sorted(map(str, got)), want))
    if not bad:
        rep.ok(R, '%s: %d-row precedence table SUCCESSFUL > INPROGRESS > '
               'FAILED > NOTSTARTED' % (f.qname, rows), f.where())
    # the per-branch verdicts come from branch_state over groupby(head_branch)
    txt = src(f.node)
    vs = [strip_wrappers(v, names=('list', 'set', 'tuple', 'frozenset'))
          for _, v in stores_to(f, stv) if v is not None]
    # one verdict per group: a comprehension without filter whose element is
    # branch_state(<the group>) -- the groups being those of the one groupby
    # over self._workflow_runs keyed by head_branch (directly, or through a
    # list of lists)
    gb = [x for x in prog.calls_in(f) if src(x.func).endswith('groupby')]
    comp = vs[0] if len(vs) == 1 and isinstance(vs[0], (
        ast.ListComp, ast.SetComp, ast.GeneratorExp)) else None
    ok = comp is not None and len(comp.generators) == 1 and \
        not comp.generators[0].ifs and isinstance(comp.elt, ast.Call) and \
        src(comp.elt.func) == 'self.branch_state' and \
        len(comp.elt.args) == 1 and not comp.elt.keywords
    if ok:
        g0 = comp.generators[0]
        grp = strip_wrappers(comp.elt.args[0], names=('list', 'tuple'))
        it = strip_wrappers(substitute_locals(f, g0.iter),
                            names=('list', 'tuple'))
        if isinstance(g0.target, ast.Tuple) and len(g0.target.elts) == 2:
            # for _, group in groupby(...)
            ok = src(grp) == src(g0.target.elts[1]) and \
                len(gb) == 1 and it is not None and src(it) == src(gb[0])
        else:
            # for group in [list(v) for _, v in groupby(...)]
            ok = src(grp) == src(g0.target) and isinstance(it, (
                ast.ListComp, ast.GeneratorExp)) and \
                len(it.generators) == 1 and not it.generators[0].ifs and \
                isinstance(it.generators[0].target, ast.Tuple) and \
                len(it.generators[0].target.elts) == 2 and \
                src(strip_wrappers(it.elt, names=('list', 'tuple'))) == \
                src(it.generators[0].target.elts[1]) and len(gb) == 1 and \
                src(it.generators[0].iter) == src(gb[0])
    rep.check(ok, R, f.qname + ': one verdict per group, from branch_state',
              f.where(), 'verdict list is %s' % [src(v) for v in vs])
    key = None
    if len(gb) == 1:
        key = gb[0].args[1] if len(gb[0].args) > 1 else kw(gb[0], 'key')
    ok = len(gb) == 1 and src(gb[0].args[0]) == 'self._workflow_runs' and \
        isinstance(key, ast.Lambda) and len(key.args.args) == 1 and \
        src(key.body) == "%s['head_branch']" % key.args.args[0].arg
    rep.check(ok, R, f.qname + ': runs grouped by head_branch', f.where(),
              'grouping is %s' % [src(x) for x in gb])
    # unwanted runs removed before grouping
    rm = an.gate_nodes(f, Spec.method('remove_unwanted_workflows'), depth=0)
    tg = [n for n in c.nodes.values() if n.kind == 'stmt' and any(
        x in gb for x in ast.walk(n.ast))]
    for t in tg:
        ok, path = c.must_pass(rm, t.id)
        rep.evaluated()
        rep.check(ok and bool(rm), R, f.qname + ': workflow_dispatch / '
                  'superseded runs removed before aggregation', f.where(t),
                  'runs are aggregated before remove_unwanted_workflows',
                  path=c.describe_path(path))


def unwanted_workflows(prog, an, rep):
    R = 'C17.REG.unwanted-workflows'
    f = need_func(an, GH + '.AggregatedWorkflowRuns.remove_unwanted_workflows')
    # the conclusion ranking: the one dict literal with a 'success' key,
    # bound to a local or written where it is used
    rank = rvar = None
    bound = {id(n.value): n.targets[0].id
             for n in walk_local(f.node, include_root=False)
             if isinstance(n, ast.Assign) and len(n.targets) == 1 and
             isinstance(n.targets[0], ast.Name)}
    texts = set()
    for n in walk_local(f.node, include_root=False):
        if isinstance(n, ast.Dict) and n.keys:
            try:
                cand = const_value(n)
            except AnalysisError:
                continue
            if 'success' in cand:
                rank = cand
                texts.add(bound.get(id(n)) or ' '.join(src(n).split()))
    if len(texts) == 1:
        rvar = texts.pop()
    else:
        rank = None if texts else rank
    rep.evaluated()
    ok = rank is not None and 'success' in rank and all(
        rank['success'] > v for k, v in rank.items() if k != 'success') and \
        set(rank) >= {'success', None, 'failure', 'cancelled'}
    rep.check(ok, R, f.qname + ': success ranks strictly highest',
              f.where(), 'conclusion ranking is %s' % rank, detail=str(rank))
    if rank is None:
        return
    c = an.cfg(f)
    # best[<run>['workflow_id']] = <run>: stored only for a new workflow id
    # or a strictly better conclusion
    pm = parent_map(f.node)
    stores = []
    for st in walk_local(f.node, include_root=False):
        if isinstance(st, ast.Assign) and len(st.targets) == 1 and \
                isinstance(st.targets[0], ast.Subscript) and \
                isinstance(st.targets[0].value, ast.Name) and \
                isinstance(st.value, ast.Name):
            run = st.value.id
            lp = pm.get(st)
            while lp is not None and not (
                    isinstance(lp, ast.For) and
                    isinstance(lp.target, ast.Name) and
                    lp.target.id == run):
                lp = pm.get(lp)
            if lp is not None and canon(f, st.targets[0].slice) == \
                    ctext(f, "%s['workflow_id']" % run):
                stores.append((st, st.targets[0].value.id, run, lp))
    rep.evaluated()
    rep.check(len(stores) == 1, R, f.qname + ': best run kept per '
              'workflow_id', f.where(), '%d stores best[run["workflow_id"]]'
              ' = run' % len(stores))
    DISPATCH = "%s['event'] != 'workflow_dispatch'"

    def filtered(e):
        """X when e is X with the workflow_dispatch runs taken out (a
        filter() or a comprehension, with or without list())."""
        e = substitute_locals(f, e)
        while isinstance(e, ast.Call) and src(e.func) in ('list', 'tuple') \
                and len(e.args) == 1 and not e.keywords:
            e = e.args[0]
        if isinstance(e, ast.Call) and src(e.func) == 'filter' and \
                len(e.args) == 2 and isinstance(e.args[0], ast.Lambda) and \
                len(e.args[0].args.args) == 1 and cond_equiv(
                    None, e.args[0].body,
                    DISPATCH % e.args[0].args.args[0].arg):
            return e.args[1]
        if isinstance(e, (ast.ListComp, ast.GeneratorExp)) and \
                len(e.generators) == 1 and e.generators[0].ifs and \
                src(e.elt) == src(e.generators[0].target) and cond_equiv(
                    None, ast.BoolOp(op=ast.And(),
                                     values=list(e.generators[0].ifs))
                    if len(e.generators[0].ifs) > 1
                    else e.generators[0].ifs[0],
                    DISPATCH % src(e.generators[0].target)):
            return e.generators[0].iter
        return None
    for st, best, run, lp in stores:
        # only runs that were not dispatched by hand compete: the loop runs
        # over the filtered list, or skips them before the comparison
        rep.evaluated()
        node = c.stmt_node[id(st)]
        gates = cond_branches(an, f, DISPATCH % run, True) + cond_branches(
            an, f, "%s['event'] == 'workflow_dispatch'" % run, False)
        ok = bool(gates) and c.must_pass(gates, node)[0]
        how = 'skipped in the loop'
        if not ok:
            it = filtered(lp.iter)
            if it is not None and canon(f, it) == 'self._workflow_runs':
                ok, how = True, 'loop over the filtered list'
        if not ok and canon(f, lp.iter) == 'self._workflow_runs':
            before = []
            for n in c.nodes.values():
                if n.kind == 'stmt' and isinstance(n.ast, ast.Assign) and \
                        any(src(t) == 'self._workflow_runs'
                            for t in n.ast.targets):
                    it = filtered(n.ast.value)
                    if it is not None and \
                            canon(f, it) == 'self._workflow_runs':
                        before += c.done_of(n)
            ok = bool(before) and c.must_pass(before, node)[0]
            how = 'list filtered before the loop'
        rep.check(ok, R, f.qname + ': workflow_dispatch runs are filtered '
                  'out before the best run of a workflow is chosen',
                  f.where(st), 'a run triggered by workflow_dispatch can '
                  'take the place of (and hide) the regular run of the same '
                  'workflow: no filter on event != workflow_dispatch before '
                  'this store', detail=how if ok else None)
        kid = "%s['workflow_id']" % run
        kept = ['%s[%s]' % (best, kid), '%s.get(%s)' % (best, kid),
                '%s.get(%s, None)' % (best, kid)]
        gates = cond_branches(an, f, '%s in %s' % (kid, best), False)
        for k_ in kept[1:]:
            gates += cond_branches(an, f, '%s is None' % k_, True)
            gates += cond_branches(an, f, k_, False)
        better = []
        for k_ in kept:
            better += cond_branches(
                an, f, "%s[%s['conclusion']] > %s[%s['conclusion']]" % (
                    rvar, run, rvar, k_), True)
            better += cond_branches(
                an, f, "%s[%s['conclusion']] < %s[%s['conclusion']]" % (
                    rvar, k_, rvar, run), True)
        ok, path = c.must_pass(gates + better, node)
        rep.evaluated()
        rep.check(ok and gates and better, R, f.qname + ': a run replaces '
                  'the kept one only if strictly better, per workflow id',
                  f.where(st), 'the kept run can be replaced by one that is '
                  'not strictly better', path=c.describe_path(path))
    # what the aggregate keeps is the selection
    outs = [n for n in c.nodes.values() if n.kind == 'stmt' and
            isinstance(n.ast, ast.Assign) and
            any(src(t) == 'self._workflow_runs' for t in n.ast.targets) and
            stores and stores[0][1] in
            {x.id for x in ast.walk(n.ast.value) if isinstance(x, ast.Name)}]
    rep.evaluated()
    rep.check(len(outs) == 1 and canon(None, outs[0].ast.value) in (
        'list(%s.values())' % stores[0][1],
        '[c1 for c1 in %s.values()]' % stores[0][1]) if stores else False,
        R, f.qname + ': the runs kept are the best run of every workflow',
        f.where(), 'self._workflow_runs is not set to the values of the '
        'per-workflow selection: %s' % [src(n.ast) for n in outs])


def lru_rules(prog, an, rep):
    R = 'C17.REG.lru'
    k = prog.cls(LRU)
    get, set_ = k.methods['get'], k.methods['set']
    gc = an.cfg(get)
    key = get.params[1]
    hits = [n for n in gc.nodes.values() if n.kind == 'return' and
            n.ast.value is not None and
            canon(get, n.ast.value) == 'self._dict[%s]' % key]
    moved = []
    for n in gc.nodes.values():
        if n.kind == 'stmt' and any(
                isinstance(x, ast.Call) and
                src(x.func) == 'self._dict.move_to_end' and
                [src(a) for a in x.args] == [key] and not x.keywords
                for x in ast.walk(n.ast)):
            moved += gc.done_of(n)
    rep.evaluated()
    ok = bool(hits) and bool(moved)
    for h in hits:
        o, _ = gc.must_pass(moved, h.id)
        ok = ok and o
    rep.check(ok, R, get.qname + ': a hit refreshes recency', get.where(),
              'LRUCache.get no longer moves the key to the recent end '
              'before answering from the cache')
    pops = [x for f in (set_, k.methods.get('size'))
            if f is not None for x in prog.calls_in(f)
            if isinstance(x.func, ast.Attribute) and
            x.func.attr == 'popitem']
    setter = [m for m in prog.funcs.values()
              if m.cls is k and m.name == 'size']
    allpops = []
    for m in prog.funcs.values():
        if m.cls is k:
            allpops += [(m, x) for x in prog.calls_in(m)
                        if isinstance(x.func, ast.Attribute) and
                        x.func.attr == 'popitem']
    rep.floor('C17 popitem sites in LRUCache', len(allpops), 1)
    for m, x in allpops:
        rep.evaluated()
        v = None
        for kwd in x.keywords:
            if kwd.arg == 'last':
                v = kwd.value
        if v is None and x.args:
            v = x.args[0]
        rep.check(v is not None and is_const(v, False), R, m.qname +
                  ': evicts the least recently used end', m.where(x),
                  'eviction pops %s' % (src(v) if v is not None else
                                        'the most recent entry'))
    # eviction only when the key is new
    c = an.cfg(set_)
    hs = [n for n in c.nodes.values() if n.kind == 'handler']
    popn = [n for n in c.nodes.values() if n.kind == 'stmt' and
            'popitem' in src(n.ast)]
    # "the key is new": the KeyError of move_to_end, or a membership test
    absent = [h.id for h in hs] + cond_branches(
        an, set_, '%s in self._dict' % set_.params[1], False)
    for p_ in popn:
        ok, path = c.must_pass(absent, p_.id)
        rep.evaluated()
        rep.check(ok and bool(absent), R, set_.qname + ': eviction only when '
                  'the key is new', set_.where(p_), 'LRUCache.set evicts '
                  'even when it overwrites an existing key',
                  path=c.describe_path(path))
    m = prog.by_name['bert_e.git_host.cache']
    v = m.consts.get('BUILD_STATUS_CACHE')
    rep.check(v is not None and src(v) == 'defaultdict(LRUCache)', R,
              'BUILD_STATUS_CACHE is one LRUCache per build key', m.path,
              'BUILD_STATUS_CACHE = %s' % (src(v) if v is not None else '?'))
    init = k.methods['__init__']
    a = init.node.args
    d = dict(zip([x.arg for x in a.args][-len(a.defaults):], a.defaults))
    rep.check('size' in d and isinstance(d['size'], ast.Constant) and
              d['size'].value >= 100, R, 'LRUCache default size is bounded '
              'and >= 100', init.where(), 'default size %s' %
              (src(d['size']) if 'size' in d else '?'))
