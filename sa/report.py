"""Obligation bookkeeping, VIOLATION / KNOWN-FINDING lines, evidence files."""
import json
import os
import time

VERIF = os.path.dirname(os.path.dirname(os.path.abspath(__file__)))
KNOWN = os.path.join(VERIF, 'known_findings.json')


def load_known():
    try:
        with open(KNOWN) as fh:
            return json.load(fh)
    except OSError:
        return {'findings': [], 'fixed': []}


class Violation:
    def __init__(self, rule, construct, where, msg, path=None, extra=None):
        self.rule = rule
        self.construct = construct
        self.where = where
        self.msg = msg
        self.path = path or []
        self.extra = extra or {}

    def key(self):
        return (self.rule, self.construct)

    def as_dict(self):
        d = {'rule': self.rule, 'construct': self.construct,
             'where': self.where, 'message': self.msg}
        if self.path:
            d['path'] = self.path
        if self.extra:
            d.update(self.extra)
        return d


class Report:
    def __init__(self, pid, tier='quick', quiet=False, root='/repo'):
        self.pid = pid
        self.tier = tier
        self.quiet = quiet
        self.root = root
        self.t0 = time.time()
        self.obligations = []      # (rule, instance, where, detail)
        self.violations = []
        self.notes = []
        self.evaluations = 0
        self.explanations = []
        self.assumptions = []
        self.extra = {}
        self.floors = []           # (label, measured, floor)
        self.errors = []           # analysis errors per rule group

    # -- recording -------------------------------------------------------
    def ok(self, rule, instance, where=None, detail=None):
        self.obligations.append({'rule': rule, 'instance': instance,
                                 'where': where, 'detail': detail,
                                 'holds': True})

    def violation(self, rule, construct, where, msg, path=None, **extra):
        v = Violation(rule, construct, where, msg, path, extra)
        self.violations.append(v)
        self.obligations.append({'rule': rule, 'instance': construct,
                                 'where': where, 'detail': msg,
                                 'holds': False})
        return v

    def check(self, cond, rule, instance, where, msg_fail, detail=None,
              path=None, **extra):
        if cond:
            self.ok(rule, instance, where, detail)
        else:
            self.violation(rule, instance, where, msg_fail, path, **extra)
        return bool(cond)

    def note(self, text):
        self.notes.append(text)

    def analysis_error(self, where, err):
        self.errors.append('%s: %s' % (where, err))

    def run_rules(self, prog, an, rules):
        """Run rule groups in isolation: an analysis error in one group
        (e.g. a vanished anchor) must not hide a violation found by
        another, and is never a pass (exit 2 when nothing else fired)."""
        from .program import AnalysisError
        for r in rules:
            try:
                r(prog, an, self)
            except AnalysisError as err:
                self.analysis_error(r.__name__, err)

    def evaluated(self, n=1):
        self.evaluations += n

    def explain(self, text):
        self.explanations.append(text)

    def assume(self, text):
        self.assumptions.append(text)

    def floor(self, label, measured, floor):
        """Vacuity guard: fewer instances than confirmed by hand means the
        rule no longer sees the code -> analysis error, not a pass."""
        from .program import AnalysisError
        self.floors.append({'what': label, 'measured': measured,
                            'floor': floor})
        if measured < floor:
            raise AnalysisError('vacuity-floor %s: measured %d < floor %d'
                                % (label, measured, floor))

    # -- finishing -------------------------------------------------------
    def split_known(self):
        known = load_known()
        entries = [k for k in known.get('findings', [])
                   if k.get('property') == self.pid]
        new, matched = [], []
        for v in self.violations:
            hit = None
            for k in entries:
                if k.get('rule') == v.rule and \
                        k.get('construct') == v.construct:
                    callers = k.get('callers')
                    if callers is not None and v.extra.get('caller') and \
                            v.extra['caller'] not in callers:
                        continue
                    hit = k
                    break
            if hit is None:
                new.append(v)
            else:
                matched.append((v, hit))
        return new, matched

    def finish(self, write=True):
        new, matched = self.split_known()
        wall = time.time() - self.t0
        held = [o for o in self.obligations if o['holds']]
        distinct = len({(o['rule'], o['instance']) for o in self.obligations})
        samples = []
        seen_rules = set()
        for o in self.obligations:
            if o['rule'] not in seen_rules:
                seen_rules.add(o['rule'])
                samples.append({k: v for k, v in o.items() if v is not None})
        for o in self.obligations[:6]:
            s = {k: v for k, v in o.items() if v is not None}
            if s not in samples:
                samples.append(s)
        ev = {
            'property_id': self.pid,
            'tier': self.tier,
            'seed': int(os.environ.get('VERIF_SEED', '0') or 0),
            'level': 'other',
            'coverage': {
                'explanation': ' '.join(self.explanations) or
                'static rules over the AST / CFG / registries of /repo',
                'obligations': len(self.obligations),
                'discharged': len(held),
                'evaluations': max(self.evaluations, len(self.obligations)),
                'distinct_nontrivial': distinct,
                'rule': 'one obligation per (rule, instance): a call site, '
                        'path target, registry member, literal table entry '
                        'or language query read off the current source; '
                        'distinct = distinct (rule, instance) pairs',
                'samples': samples[:40],
                'rules_applied': sorted(seen_rules),
                'vacuity_floors': self.floors,
                'exhaustive': True,
                'checker_cmd': './vcheck %s --tier %s' % (self.pid,
                                                           self.tier),
                'trusted_base': [
                    'CPython ast / re._parser',
                    'sa.cfg construction and sa.program callee resolution',
                    'frozen tables in the property module (each with a '
                    'reason)'],
            },
            'assumptions': self.assumptions,
            'notes': self.notes,
            'known_findings': [
                {'rule': v.rule, 'construct': v.construct, 'where': v.where,
                 'what': k.get('what')} for v, k in matched],
            'violation_details': [v.as_dict() for v in new],
            'analysis_errors': self.errors,
            'wall_s': round(wall, 3),
            'violations': len(new),
        }
        ev['coverage'].update(self.extra)
        out_dir = os.path.join(VERIF, 'out')
        replay = os.path.join(out_dir, '%s.violation.json' % self.pid)
        if write:
            os.makedirs(os.path.join(VERIF, 'evidence'), exist_ok=True)
            with open(os.path.join(VERIF, 'evidence', self.pid + '.json'),
                      'w') as fh:
                json.dump(ev, fh, indent=1, sort_keys=True, default=str)
                fh.write('\n')
            if new:
                os.makedirs(out_dir, exist_ok=True)
                with open(replay, 'w') as fh:
                    json.dump({'property': self.pid, 'root': self.root,
                               'violations': [v.as_dict() for v in new]},
                              fh, indent=1, default=str)
            elif os.path.exists(replay):
                os.unlink(replay)
        if not self.quiet:
            print('%s [%s] obligations=%d discharged=%d evaluations=%d '
                  'wall=%.2fs' % (self.pid, self.tier, len(self.obligations),
                                  len(held), ev['coverage']['evaluations'],
                                  wall))
            for n in self.notes:
                print('NOTE: property=%s %s' % (self.pid, n))
            for v, k in matched:
                print('KNOWN-FINDING: property=%s rule=%s construct=%s at %s'
                      ' -- %s' % (self.pid, v.rule, v.construct, v.where,
                                  k.get('what', v.msg)))
            for v in new:
                print('FINDING rule=%s construct=%s at %s: %s' %
                      (v.rule, v.construct, v.where, v.msg))
                for p in v.path[:30]:
                    print('    path: %s' % p)
            for e in self.errors:
                print('ANALYSIS-ERROR property=%s %s' % (self.pid, e))
            if new:
                print('VIOLATION property=%s replay=%s' % (self.pid, replay))
        if new:
            return 1
        return 2 if self.errors else 0
