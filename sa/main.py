"""Command line driver: ./vcheck <property id> [--tier quick|thorough]"""
import argparse
import importlib
import os
import sys
import traceback

from .program import Program, AnalysisError
from .analysis import Analyzer
from .report import Report

CLAIMED = ['C01', 'C02', 'C03', 'C04', 'C06', 'C07', 'C08', 'C09', 'C10', 'C11',
           'C12', 'C13', 'C14', 'C15', 'C16', 'C17', 'C18', 'C19', 'C20']


def run_property(pid, prog, tier='quick', quiet=False, root='/repo',
                 an=None):
    mod = importlib.import_module('sa.props.%s' % pid.lower())
    an = an or Analyzer(prog)
    rep = Report(pid, tier, quiet=quiet, root=root)
    mod.run(prog, an, rep)
    return rep


def main(argv=None):
    ap = argparse.ArgumentParser()
    ap.add_argument('pid')
    ap.add_argument('--tier', default=os.environ.get('VERIF_TIER', 'quick'))
    ap.add_argument('--root', default=os.environ.get('VERIF_REPO', '/repo'))
    ap.add_argument('--no-write', action='store_true')
    ap.add_argument('--replay', default=None)
    args = ap.parse_args(argv)
    pid = args.pid.upper()
    if args.tier not in ('quick', 'thorough'):
        args.tier = 'quick'
    try:
        if pid == 'ALL':
            prog = Program.load(args.root)
            an = Analyzer(prog)
            rc = 0
            for p in CLAIMED:
                rep = run_property(p, prog, args.tier, root=args.root, an=an)
                rc = max(rc, rep.finish(write=not args.no_write))
            return rc
        if pid not in CLAIMED:
            print('ANALYSIS-ERROR property %s is not claimed' % pid)
            return 2
        prog = Program.load(args.root)
        rep = run_property(pid, prog, args.tier, root=args.root)
        if args.tier == 'thorough':
            from . import selftest
            selftest.run_for(pid, prog, rep)
        return rep.finish(write=not args.no_write)
    except AnalysisError as err:
        print('ANALYSIS-ERROR property=%s %s' % (pid, err))
        return 2
    except Exception:  # a traceback must never look like a verdict
        traceback.print_exc()
        print('ANALYSIS-ERROR property=%s internal error' % pid)
        return 2


if __name__ == '__main__':
    sys.exit(main())
